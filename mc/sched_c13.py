"""C13, thread clause: all schedules (preemption bound 1 quick / 2 thorough) of 2-3 threads that
parse / construct and serialize DISTINCT packets of one class. Oracle: each thread observes exactly what it
observes when run alone."""
import os

from mc import common, mk, sched
from mc.common import Stats
from mc.props import c13

THREAD_SCENARIOS = ['seq', 'opt', 'bits', 'proto-pickle', 'selector-fresh', 'selector-shared', 'selector-two', 'marker', 'regex-kept', 'regex-nonkept', 'regex-nonkept-seq',
                    'described', 'user-descriptor', 'two-levels', 'positioned', 'seq-data', 'default-list', 'expr']


def body_unpack(mod, raw):
    def body():
        p = mod.K.unpack(raw)
        out = p.pack()
        return (c13.snap(p), out, p.pack())
    return body


def body_new(mod, kw):
    def body():
        p = mod.K(**{k: (list(v) if isinstance(v, list) else v) for k, v in kw.items()})
        out = p.pack()
        return (c13.snap(p), out)
    return body


def programs(scname, tier):
    """list of (label, [body makers])"""
    sc = c13.SCENARIOS[scname]
    ins = sc['inputs']
    progs = [('unpack0|unpack1', [('u', ins[0]), ('u', ins[1])])]
    if len(sc['kws']) > 1:
        progs.append(('unpack0|new1', [('u', ins[0]), ('n', sc['kws'][1])]))
    if tier == 'thorough':
        progs.append(('unpack1|unpack2', [('u', ins[1]), ('u', ins[2])]))
        progs.append(('unpack0|unpack1|unpack2', [('u', ins[0]), ('u', ins[1]), ('u', ins[2])]))
    return progs


def make(mod, spec):
    return [body_unpack(mod, x) if k == 'u' else body_new(mod, x) for k, x in spec]


def _shard(shard, nshards, payload):
    import bisturi
    from bisturi.field import Field
    tier = payload['tier']
    bound = 1 if tier == 'quick' else 2
    # bound 2 costs about the square of the number of scheduling points (~10^5 schedules per program): it is spent on the scenarios
    # whose field objects keep per-parse state within reach (and on generated code, two threads); everything else runs at bound 1
    DEEP = {'seq', 'bits', 'selector-shared', 'regex-nonkept', 'described', 'expr'}
    st = Stats()
    tot = {'schedules': 0, 'points': 0, 'overlaps': 0, 'states': 0, 'errors': []}
    bdir = os.path.dirname(bisturi.__file__)
    for scname in THREAD_SCENARIOS:
        for gen in ((True,) if tier == 'quick' else (True, False)):
            for label, spec in programs(scname, tier):
                b3 = bound if len(spec) == 2 else 1
                if b3 == 2 and not (scname in DEEP and gen and label == 'unpack0|unpack1'):
                    b3 = 1
                worlds = []

                def fresh(scname=scname, gen=gen, spec=spec, worlds=worlds):
                    """every execution starts from the same initial state: freshly defined classes"""
                    while worlds:
                        worlds.pop().dispose()
                    w = mk.World()
                    worlds.append(w)
                    mod, classes, body = c13.define(scname, gen, w)
                    return make(mod, spec), (bdir, w.scratch.dir)

                # single-threaded reference observations, each on fresh classes
                expected = []
                for i in range(len(spec)):
                    bodies, _ = fresh()
                    try:
                        expected.append(('ok', bodies[i]()))
                    except Exception as e:
                        expected.append(sched.describe_exception(e))
                seen = set()

                def check(x, expected=expected, scname=scname, gen=gen, label=label, spec=spec, seen=seen, fresh=fresh):
                    seen.add(common.digest(x.results))
                    if x.results != expected:
                        bad = [i for i in range(len(expected)) if x.results[i] != expected[i]]
                        # replay twice: the same schedule must fail every time
                        again = []
                        for _ in range(2):
                            bodies, dirs = fresh()
                            again.append(sched.Execution(bodies, x.choices, dirs).run().results)
                        if again[0] != x.results or again[1] != x.results:
                            st.notes.append('HARNESS: schedule %r of %s/%s is not reproducible' % (x.choices, scname, label))
                            return
                        e = {'sig': 'bystander pack changed', 'exp': None, 'got': None}
                        try:
                            if expected[bad[0]][0] == 'ok' and x.results[bad[0]][0] == 'ok':
                                e['exp'] = ('ok', expected[bad[0]][1][1])
                                e['got'] = ('ok', x.results[bad[0]][1][1])
                        except Exception:
                            pass
                        sig = c13.narrow(scname, e) if e['exp'] and e['got'] else ''
                        if not sig.startswith('regex delimiter'):
                            sig = '%s: thread observation differs' % scname
                        st.violate(sig, '%s (generated=%s) threads %s, schedule %r: thread %d observed %r, alone it observes %r' % (
                            scname, gen, label, x.choices, bad[0], x.results[bad[0]], expected[bad[0]]),
                            {'schedule': x.choices, 'scenario': scname, 'gen': gen, 'spec': [[k, v] for k, v in spec]})

                res = sched.explore(fresh, None, b3, check, field_base=Field, shard=shard, nshards=nshards)
                while worlds:
                    worlds.pop().dispose()
                tot['schedules'] += res['schedules']
                tot['points'] += res['points']
                tot['overlaps'] += res['overlaps']
                tot['errors'].extend(res['errors'])
                st.add('thread_states', (scname, gen, label, tuple(sorted(seen))))
                st.inc('thread_outcomes', len(seen))
                if shard == 0:
                    st.sample({'threads': label, 'scenario': scname, 'points_per_schedule': res['maxpoints'], 'preemption_bound': b3}, cap=3)
    st.n['schedules'] = tot['schedules']
    st.n['points'] = tot['points']
    st.n['overlaps'] = tot['overlaps']
    for e in tot['errors'][:5]:
        st.notes.append('HARNESS: ' + e)
    return st


def run(tier):
    st = common.merge_all(common.run_sharded(_shard, {'tier': tier}))
    bound = 1 if tier == 'quick' else 2
    return {
        'stats': st, 'schedules': st.n.get('schedules', 0), 'transitions': st.n.get('points', 0), 'states': st.n.get('thread_outcomes', 0),
        'overlaps': st.n.get('overlaps', 0), 'preemptions': bound, 'threads': 2 if tier == 'quick' else 3,
        'samples': [s for s in st.samples if 'threads' in s][:2],
        'harness_errors': [n for n in st.notes if n.startswith('HARNESS')],
        'rule': 'all schedules with <=%d preemptions (3 threads: <=1; two preemptions for the six scenarios seq, bits, selector-shared, regex-nonkept, described, expr on generated code, one elsewhere) of threads each doing unpack+pack+pack or construct+pack on distinct packets of one class, '
                '%d scenarios%s; scheduling points = source lines inside bisturi and the generated modules; each thread must observe what it observes alone' % (
                    bound, len(THREAD_SCENARIOS), '' if tier == 'quick' else ' x generated/generic'),
    }


def replay(case):
    import bisturi
    bdir = os.path.dirname(bisturi.__file__)
    spec = [(k, v) for k, v in case['spec']]
    worlds = []

    def fresh():
        while worlds:
            worlds.pop().dispose()
        w = mk.World()
        worlds.append(w)
        mod, classes, body = c13.define(case['scenario'], case['gen'], w)
        return make(mod, spec), (bdir, w.scratch.dir)
    expected = []
    for i in range(len(spec)):
        bodies, _ = fresh()
        try:
            expected.append(('ok', bodies[i]()))
        except Exception as e:
            expected.append(sched.describe_exception(e))
    runs = []
    for _ in range(2):
        bodies, dirs = fresh()
        runs.append(sched.Execution(bodies, case['schedule'], dirs).run().results)
    while worlds:
        worlds.pop().dispose()
    if runs[0] != runs[1]:
        raise RuntimeError('schedule not reproducible')
    if runs[0] != expected:
        return [{'sig': 'thread observation differs', 'what': 'schedule %r: %r vs alone %r' % (case['schedule'], runs[0], expected)}]
    return []
