"""Reference semantics of the declaration IR (DESIGN.md appendix A): plain recursive descent that shares
no code with bisturi. parse / encode / defaults.

Deliberately boring: integers are decoded positionally, first-occurrence search is a naive loop, a field
needs exactly its bytes inside the input, nothing is clamped.
"""
import re
import sys

from mc.ir import PV, expr_eval, until_eval
from mc.ir import re_flags as ir_re_flags


class Fail(Exception):
    """the reference rejects the input / the values; stack: innermost first, entries (offset, names, class)"""

    def __init__(self, why, kind='other'):
        Exception.__init__(self, why)
        self.why = why
        self.kind = kind        # 'short': a field's bytes are not all inside the input
        self.stack = []


class OutOfScope(Exception):
    """the case leaves the domain the reference defines (cursor below 0, unsupported value kinds)"""


class DefinitionError(Exception):
    """the declaration must be rejected when the class is defined"""


class Ctx:
    def __init__(self, raw):
        self.raw = raw
        self.consumed = []      # (lo, hi, path) of every non-empty read that belongs to a field
        self.high = 0
        self.starts = {}        # path -> offset at which the field's own bytes start (after positioning)
        self.regex_nonkept = False   # a regex delimiter not kept in the value was consumed
        self.nonconsumed_delim = False
        self.regex_ends = set()   # offsets at which a regex delimiter match ended
        self.steps = 0

    def touch(self, cur):
        if cur < 0:
            raise OutOfScope('cursor below 0')
        if cur > self.high:
            self.high = cur

    def need(self, cur, n, path):
        if n < 0:
            raise Fail('negative size %d' % n)
        if n > 0 and cur + n > len(self.raw):
            raise Fail('needs %d bytes at %d but the input has %d' % (n, cur, len(self.raw)), 'short')
        if n:
            self.consumed.append((cur, cur + n, path))
        self.touch(cur + n)
        self.steps += 1
        return self.raw[cur:cur + n]


def is_big(end, opts):
    e = end if end is not None else opts.get('endianness', 'big')
    if e in ('big', 'network'):
        return True
    if e == 'little':
        return False
    if e == 'local':
        return sys.byteorder == 'big'
    raise OutOfScope('endianness %r' % (e,))


def int_decode(bs, signed, big):
    seq = bs if big else bs[::-1]
    v = 0
    for b in seq:
        v = v * 256 + b
    if signed and seq[0] >= 0x80:
        v -= 256 ** len(bs)
    return v


def int_encode(v, n, signed, big):
    if type(v) is not int:
        raise Fail('not an integer: %r' % (v,))
    lo, hi = (-(256 ** n) // 2, 256 ** n // 2 - 1) if signed else (0, 256 ** n - 1)
    if not (lo <= v <= hi):
        raise Fail('%d not representable in %d bytes' % (v, n))
    u = v + 256 ** n if v < 0 else v
    out = []
    for _ in range(n):
        out.append(u % 256)
        u //= 256
    out = bytes(out)
    return out[::-1] if big else out


def kinds_of(P):
    return {n: node['k'] for n, node in P['fields']}


def eval_spelled(t, sp, vals, kinds, as_condition=False):
    """value of expression t in spelling sp; a BARE field used as a condition means truth for integer-like
    fields (and optionals) and 'length != 0' for byte strings and lists"""
    try:
        if sp == 'field' and as_condition:
            v = vals[t[1]]
            k = kinds.get(t[1])
            if k in ('data', 'seq'):
                return len(v)
            return bool(v)
        return expr_eval(t, vals)
    except Fail:
        raise
    except Exception as e:
        raise Fail('evaluating %r raised %s' % (t, type(e).__name__))


def effective_pos(node, opts):
    p = node.get('pos')
    if p:
        return p
    if 'align' in opts:
        return {'m': 'aligned', 'arg': ['c', opts['align']], 'sp': 'const', 'ref': None}
    return None


def apply_pos(p, vals, kinds, cur, P0):
    v = eval_spelled(p['arg'], p['sp'], vals, kinds)
    if type(v) is not int:
        raise OutOfScope('position %r' % (v,))
    m, ref = p['m'], p['ref']
    if m == 'aligned':
        base = {None: 0, 'begins': 0, 'current-offset': cur, 'innermost-pkt': P0}[ref]
        if v == 0:
            raise Fail('alignment 0: modulo by zero', 'position')
        if v < 0:
            raise OutOfScope('alignment %r' % v)
        return cur + (v - ((cur - base) % v)) % v
    if m == 'shift':
        return cur + v
    base = {None: P0, 'innermost-pkt': P0, 'begins': 0, 'current-offset': cur}[ref]
    return base + v


def bits_runs(P):
    """list of (start_index, [field names], [widths]) for the runs of adjacent Bits; raises DefinitionError"""
    opts = P.get('opts') or {}
    runs = {}
    fields = P['fields']
    i = 0
    while i < len(fields):
        if fields[i][1]['k'] == 'bits':
            j = i + 1
            while j < len(fields) and fields[j][1]['k'] == 'bits' and not effective_pos(fields[j][1], opts):
                j += 1
            names = [fields[x][0] for x in range(i, j)]
            widths = [fields[x][1]['w'] for x in range(i, j)]
            if sum(widths) % 8:
                raise DefinitionError('run %r sums to %d bits' % (names, sum(widths)))
            runs[i] = (names, widths)
            i = j
        else:
            i += 1
    return runs


# ---------------------------------------------------------------------------------------------
# parse
# ---------------------------------------------------------------------------------------------
class Ok:
    def __init__(self, pv, end, ctx, start):
        self.pv = pv
        self.end = end
        self.consumed = ctx.consumed
        self.high = ctx.high
        self.starts = ctx.starts
        self.regex_nonkept = ctx.regex_nonkept
        self.nonconsumed_delim = ctx.nonconsumed_delim
        self.regex_ends = ctx.regex_ends
        self.start = start


def parse(P, raw, start=0):
    """Ok or raises Fail / OutOfScope"""
    ctx = Ctx(raw)
    ctx.high = start
    pv, end = parse_pkt(P, ctx, start, ())
    return Ok(pv, end, ctx, start)


def parse_pkt(P, ctx, cur, path):
    opts = P.get('opts') or {}
    kinds = kinds_of(P)
    runs = bits_runs(P)
    P0 = cur
    vals = {}
    fields = P['fields']
    fstarts = {}
    i = 0
    while i < len(fields):
        fname, node = fields[i]
        names = [fname]
        p = effective_pos(node, opts)
        if p:
            try:
                cur = apply_pos(p, vals, kinds, cur, P0)
            except Fail as f:
                f.field_starts = dict(fstarts)
                f.stack.append((cur, ['_shift_to_' + fname], P['name']))
                raise
            ctx.touch(cur)
        fstart = cur
        fstarts[fname] = cur
        try:
            if i in runs:
                names, widths = runs[i]
                nbytes = sum(widths) // 8
                for nm in names:
                    ctx.starts[path + (nm,)] = cur
                    fstarts[nm] = cur
                bs = ctx.need(cur, nbytes, path + (names[0],))
                bits = ''.join(format(b, '08b') for b in bs)
                at = 0
                for nm, w in zip(names, widths):
                    vals[nm] = int(bits[at:at + w], 2)
                    at += w
                cur += nbytes
                i += len(names)
                continue
            v, cur = parse_node(node, fname, vals, kinds, opts, ctx, cur, P0, path + (fname,))
            if node['k'] != 'em':
                vals[fname] = v
        except Fail as f:
            if not f.stack:
                f.field_starts = dict(fstarts)
            f.stack.append((fstart, names, P['name']))
            raise
        i += 1
    for fname, node in fields:
        d = node.get('desc')
        if d and d['k'] == 'autolength':
            # a freshly parsed packet is enabled: the attribute reads the current length of the tracked field
            vals[fname] = len(vals[d['of']])
        elif d and d['k'] == 'auto':
            # ... and an Auto field reads what its computation yields from the parsed values (whatever the data held there)
            vals[fname] = expr_eval(d['expr'], vals)
    return PV(P['name'], vals), cur


def parse_node(node, fname, vals, kinds, opts, ctx, cur, P0, path):
    k = node['k']
    raw = ctx.raw
    if k == 'int':
        ctx.starts[path] = cur
        bs = ctx.need(cur, node['n'], path)
        return int_decode(bs, node.get('signed'), is_big(node.get('end'), opts)), cur + node['n']
    if k == 'data':
        ctx.starts[path] = cur
        mode = node['mode']
        if mode == 'size':
            if node['sp'] == 'rem':
                if cur > len(raw):
                    raise OutOfScope('beyond the end')
                n = len(raw) - cur
            else:
                n = eval_spelled(node['size'], node['sp'], vals, kinds)
            if type(n) is not int:
                raise Fail('size %r is not an integer' % (n,))
            bs = ctx.need(cur, n, path)
            return bs, cur + n
        if mode == 'eos':
            if cur > len(raw):
                raise OutOfScope('read-to-end beyond the end')
            n = len(raw) - cur
            bs = ctx.need(cur, n, path)
            return bs, cur + n
        w = opts.get('search_buffer_length')
        if cur > len(raw):
            window = b''
        else:
            window = raw[cur:cur + w] if w else raw[cur:]
        if mode == 'marker':
            m = node['m']
            found = None
            for s in range(0, len(window) - len(m) + 1):
                if window[s:s + len(m)] == m:
                    found = s
                    break
            if found is None:
                raise Fail('marker %r not found in the search window' % m)
            dlen = len(m)
        else:
            rx = re.compile(node['pat'], ir_re_flags(node))
            found = None
            for s in range(0, len(window) + 1):
                mt = rx.match(window, s)
                if mt:
                    found = s
                    dlen = mt.end() - s
                    ctx.regex_ends.add(cur + mt.end())
                    break
            if found is None:
                raise Fail('regex %r does not match in the search window' % node['pat'])
        if node.get('incl'):
            bs = ctx.need(cur, found + dlen, path)
            return bs, cur + found + dlen
        bs = ctx.need(cur, found, path)
        end = cur + found
        if node.get('consume', True):
            ctx.need(end, dlen, path + ('<delimiter>',))
            end += dlen
            if mode == 'regex':
                ctx.regex_nonkept = True
        else:
            ctx.nonconsumed_delim = True
        return bs, end
    if k == 'ref':
        return parse_pkt(node['pkt'], ctx, cur, path)
    if k == 'refsel':
        key = eval_spelled(node['sel'], 'expr', vals, kinds)
        tgt = None
        for kk, t in node['table']:
            if kk == key and type(kk) is type(key):
                tgt = t
                break
        if tgt is None:
            raise Fail('selector value %r selects nothing' % (key,))
        if tgt['k'] == 'pkt':
            return parse_pkt(tgt, ctx, cur, path)
        return parse_node(tgt, fname, vals, kinds, {}, ctx, cur, P0, path)
    if k == 'seq':
        out = []
        vals[fname] = out           # conditions see the list built so far
        a = node.get('aligned') or opts.get('align') or 1
        elem = node['elem']
        if node['count'] is not None:
            if node['csp'] == 'rem':
                if cur > len(raw):
                    raise OutOfScope('beyond the end')
                n = len(raw) - cur
            else:
                n = eval_spelled(node['count'], node['csp'], vals, kinds)
            if type(n) is not int:
                raise Fail('count %r is not an integer' % (n,))
        else:
            n = 1
        if node['when'] is not None:
            if n <= 0 or not eval_spelled(node['when'], node['wsp'], vals, kinds, True):
                return out, cur
        idx = 0
        for _ in range(max(n, 0)):
            cur += (a - cur % a) % a
            ctx.touch(cur)
            v, cur = parse_node(elem, fname, vals, kinds, opts, ctx, cur, P0, path + (idx,))
            out.append(v)
            idx += 1
        if node['until'] is not None:
            while True:
                try:
                    stop = until_eval(node['until'], out, cur, P0, len(raw))
                except Exception as e:
                    raise Fail('until condition raised %s' % type(e).__name__)
                if stop:
                    break
                if idx > len(raw) + 2 and cur >= len(raw):
                    raise OutOfScope('until never becomes true on empty elements')
                cur += (a - cur % a) % a
                ctx.touch(cur)
                v, cur = parse_node(elem, fname, vals, kinds, opts, ctx, cur, P0, path + (idx,))
                out.append(v)
                idx += 1
        return out, cur
    if k == 'opt':
        if eval_spelled(node['when'], node['wsp'], vals, kinds, True):
            return parse_node(node['elem'], fname, vals, kinds, opts, ctx, cur, P0, path)
        return None, cur
    if k == 'em':
        ctx.starts[path] = cur
        return None, cur
    if k == 'user':
        ctx.starts[path] = cur
        bs = ctx.need(cur, node['n'], path)
        return bytes(bs).hex(), cur + node['n']
    raise ValueError(k)


# ---------------------------------------------------------------------------------------------
# encode
# ---------------------------------------------------------------------------------------------
class Sparse:
    def __init__(self):
        self.bytes = {}
        self.extent = 0
        self.cur = 0
        self.placed = {}    # path -> offset

    def put(self, bs):
        p = self.cur
        if p < 0:
            raise OutOfScope('cursor below 0')
        for i in range(len(bs)):
            if (p + i) in self.bytes:
                raise Fail('collision at %d' % (p + i))
        for i, b in enumerate(bs):
            self.bytes[p + i] = b
        self.cur = p + len(bs)
        self.extent = max(self.extent, self.cur)

    def tobytes(self, fill=ord('.')):
        return bytes(self.bytes.get(i, fill) for i in range(self.extent))


def encode(P, pv, pkts=None):
    """bytes, or raises Fail (stack like parse: offsets are write-cursor positions) / OutOfScope"""
    out = Sparse()
    encode_pkt(P, pv, out, (), pkts or {})
    return out.tobytes(), out


def encode_pkt(P, pv, out, path, pkts):
    opts = P.get('opts') or {}
    kinds = kinds_of(P)
    runs = bits_runs(P)
    vals = pv.vals
    P0 = out.cur
    fields = P['fields']
    fstarts = {}
    i = 0
    while i < len(fields):
        fname, node = fields[i]
        names = [fname]
        p = effective_pos(node, opts)
        if p:
            try:
                out.cur = apply_pos(p, vals, kinds, out.cur, P0)
            except Fail as f:
                f.field_starts = dict(fstarts)
                f.stack.append((out.cur, ['_shift_to_' + fname], P['name']))
                raise
            if out.cur < 0:
                raise OutOfScope('cursor below 0')
        fstarts[fname] = out.cur
        try:
            if i in runs:
                names, widths = runs[i]
                for nm in names:
                    fstarts[nm] = out.cur
                bits = ''
                for nm, w in zip(names, widths):
                    v = vals[nm]
                    if type(v) is not int:
                        raise Fail('bit field value %r' % (v,))
                    bits += format(v % (1 << w), '0%db' % w)
                for nm in names:
                    out.placed[path + (nm,)] = out.cur
                out.put(bytes(int(bits[x:x + 8], 2) for x in range(0, len(bits), 8)))
                i += len(names)
                continue
            if node['k'] == 'em':
                out.placed[path + (fname,)] = out.cur
                out.extent = max(out.extent, out.cur)
            else:
                encode_node(node, fname, vals[fname], vals, kinds, opts, out, P0, path + (fname,), pkts)
        except Fail as f:
            if not f.stack:
                f.field_starts = dict(fstarts)
            f.stack.append((out.cur, names, P['name']))
            raise
        i += 1


def encode_node(node, fname, v, vals, kinds, opts, out, P0, path, pkts):
    k = node['k']
    if k == 'user':
        out.placed[path] = out.cur
        try:
            chunk = bytes.fromhex(v)
        except (TypeError, ValueError):
            raise Fail('hexadecimal value %r' % (v,))
        if len(chunk) != node['n']:
            raise Fail('%d bytes expected, %r has %d' % (node['n'], v, len(chunk)))
        out.put(chunk)
        return
    if k == 'int':
        out.placed[path] = out.cur
        out.put(int_encode(v, node['n'], node.get('signed'), is_big(node.get('end'), opts)))
        return
    if k == 'data':
        out.placed[path] = out.cur
        if not isinstance(v, bytes):
            raise Fail('byte-string value %r' % (v,))
        if node['mode'] == 'marker' and not node.get('incl'):
            out.put(v + node['m'])
        elif node['mode'] == 'regex' and not node.get('incl'):
            raise OutOfScope('encoding of a regex delimiter that is not kept in the value')
        else:
            out.put(v)
        return
    if k == 'ref':
        if not isinstance(v, PV):
            raise Fail('not a packet: %r' % (v,))
        encode_pkt(pkts.get(v.name, node['pkt']), v, out, path, pkts)
        return
    if k == 'refsel':
        if isinstance(v, PV):
            tgt = pkts.get(v.name)
            if tgt is None:
                for _, t in node['table']:
                    if t['k'] == 'pkt' and t['name'] == v.name:
                        tgt = t
            if tgt is None:
                raise OutOfScope('unknown packet value')
            encode_pkt(tgt, v, out, path, pkts)
            return
        key = eval_spelled(node['sel'], 'expr', vals, kinds)
        tgt = None
        for kk, t in node['table']:
            if kk == key and type(kk) is type(key):
                tgt = t
                break
        if tgt is None:
            raise Fail('selector value %r selects nothing' % (key,))
        if tgt['k'] == 'pkt':
            raise Fail('a plain value cannot be encoded by a packet')
        encode_node(tgt, fname, v, vals, kinds, {}, out, P0, path, pkts)
        return
    if k == 'seq':
        a = node.get('aligned') or opts.get('align') or 1
        if not isinstance(v, list):
            raise OutOfScope('sequence value %r' % (v,))
        for idx, x in enumerate(v):
            out.cur += (a - out.cur % a) % a
            encode_node(node['elem'], fname, x, vals, kinds, opts, out, P0, path + (idx,), pkts)
        return
    if k == 'opt':
        if v is not None:
            encode_node(node['elem'], fname, v, vals, kinds, opts, out, P0, path, pkts)
        return
    raise ValueError(k)


# ---------------------------------------------------------------------------------------------
# defaults
# ---------------------------------------------------------------------------------------------
def defaults(P):
    vals = {}
    for fname, node in P['fields']:
        if node['k'] == 'em':
            continue
        vals[fname] = default_of(node)
    return PV(P['name'], vals)


def default_of(node):
    k = node['k']
    d = node.get('default')
    if k == 'user':
        return d if d is not None else '00' * node['n']
    if k in ('int', 'bits'):
        return 0 if d is None else d
    if k == 'data':
        if d:
            return d
        if node['mode'] == 'size' and node['sp'] == 'const':
            return b'\x00' * node['size'][1]
        return b''
    if k == 'ref':
        pv = defaults(node['pkt'])
        if node['how'] in ('inst', 'var'):
            pv.vals.update(node['kw'])      # the prototype as it was when the class was declared
        return pv
    if k == 'refsel':
        return d
    if k == 'seq':
        return list(d) if d is not None else []
    if k == 'opt':
        return d
    raise ValueError(k)
