"""Anchors the reference interpreter to the user-facing documentation: the examples of
docs/reference/*.md and of the Field docstrings, written in the IR, must give the documented values and
bytes through mc/refsem.py alone (bisturi is not involved)."""
from mc import refsem
from mc.ir import PKT, I, D, DM, B, R, RS, S, O, EM, pos, F, C, BIN, PV


def cases():
    out = []
    # Field.repeated docstring: Bag / Box
    Bag = PKT('Bag', [('num', I(1)), ('objects', S(I(1), F('num')))])
    Box = PKT('Box', [('bags', S(R(Bag), until={'u': 'last_eq', 'attr': 'num', 'v': 0}))])
    out.append(('repeated/until', Box, b'\x02\x01\x02\x01\x04\x00',
                PV('Box', {'bags': [PV('Bag', {'num': 2, 'objects': [1, 2]}), PV('Bag', {'num': 1, 'objects': [4]}), PV('Bag', {'num': 0, 'objects': []})]}), True))
    # Field.repeated docstring: Room (per-element alignment on output)
    Room = PKT('Room', [('tight', S(R(Box), C(2))), ('no_so_tight', S(R(Box), C(2), aligned=6))])
    out.append(('repeated/aligned', Room, b'\x01A\x00\x02BC\x00.....\x01A\x00...\x02BC\x00', None, True))
    # Field.when docstring
    Ex = PKT('Example', [('type', I(1)), ('nonzero_msg', O(D(C(2)), F('type'))), ('typeone_msg', O(D(C(2)), BIN('eq', F('type'), C(1))))])
    out.append(('when/0', Ex, b'\x00AB', PV('Example', {'type': 0, 'nonzero_msg': None, 'typeone_msg': None}), False))
    out.append(('when/2', Ex, b'\x02AB', PV('Example', {'type': 2, 'nonzero_msg': b'AB', 'typeone_msg': None}), True))
    out.append(('when/1', Ex, b'\x01ABCD', PV('Example', {'type': 1, 'nonzero_msg': b'AB', 'typeone_msg': b'CD'}), True))
    # 11_positions_and_alignments.md
    Folder = PKT('Folder', [('offset_of_file', I(1)), ('file_data', pos(D(C(4)), 'at', F('offset_of_file')))])
    out.append(('at/field', Folder, b'\x04XXXABCD', PV('Folder', {'offset_of_file': 4, 'file_data': b'ABCD'}), False))
    Vec = PKT('Vec', [('data', pos(D(C(4)), 'at', C(2)))])
    Tensor = PKT('Tensor', [('vecs', S(R(Vec), C(2)))])
    out.append(('at/innermost', Tensor, b'xxABCDyyEFGH', PV('Tensor', {'vecs': [PV('Vec', {'data': b'ABCD'}), PV('Vec', {'data': b'EFGH'})]}), False))
    Option = PKT('Option', [('len', I(1)), ('data', D(F('len')))])
    Dg = PKT('Datagram', [('count_options', I(1)), ('options', pos(S(R(Option), F('count_options')), 'shift', C(3))), ('checksum', I(4))])
    dgv = PV('Datagram', {'count_options': 2, 'options': [PV('Option', {'len': 1, 'data': b'A'}), PV('Option', {'len': 4, 'data': b'ABCD'})], 'checksum': 0x41424344})
    out.append(('shift', Dg, b'\x02...\x01A\x04ABCDABCD', dgv, True))
    Back = PKT('Backwards', [('i', pos(I(1), 'at', C(4))), ('d', pos(D(C(4)), 'shift', C(-5)))])
    out.append(('shift/negative', Back, b'ABCD\xff', PV('Backwards', {'i': 255, 'd': b'ABCD'}), True))
    Dg2 = PKT('Datagram', [('count_options', I(1)), ('options', pos(S(R(Option), F('count_options')), 'aligned', C(4))), ('checksum', I(4))])
    out.append(('aligned/field', Dg2, b'\x02...\x01A\x04ABCDABCD', dgv, True))
    Dg3 = PKT('Datagram', [('count_options', I(1)), ('options', S(R(Option), F('count_options'), aligned=4)), ('checksum', I(4))])
    out.append(('aligned/elements', Dg3, b'\x02...\x01A..\x04ABCDABCD', dgv, True))
    Dg4 = PKT('Datagram', [('count_options', I(1)), ('options', S(R(Option), F('count_options'))), ('checksum', I(4))], align=4)
    out.append(('aligned/class', Dg4, b'\x02...\x01A..\x04ABCD...ABCD', dgv, True))
    Point = PKT('Point', [('x', I(2)), ('y', pos(I(2), 'aligned', C(4), ref='begins'))])
    out.append(('aligned/begins', Point, b'\x00\x01..\x00\x02', PV('Point', {'x': 1, 'y': 2}), True))
    NP = PKT('NamedPoint', [('name', DM(b'\x00')), ('point', R(Point))])
    out.append(('aligned/begins nested', NP, b'f\x00\x00\x01\x00\x02', PV('NamedPoint', {'name': b'f', 'point': PV('Point', {'x': 1, 'y': 2})}), True))
    Point2 = PKT('Point', [('x', I(2)), ('y', pos(I(2), 'aligned', C(4), ref='innermost-pkt'))])
    NP2 = PKT('NamedPoint', [('name', DM(b'\x00')), ('point', R(Point2))])
    out.append(('aligned/innermost nested', NP2, b'f\x00\x00\x01..\x00\x02', PV('NamedPoint', {'name': b'f', 'point': PV('Point', {'x': 1, 'y': 2})}), True))
    Dg5 = PKT('Datagram', [('size', I(1)), ('data', D(F('size'))), ('tail', pos(EM(), 'aligned', C(4)))])
    out.append(('em/aligned 3', Dg5, b'\x03ABC', PV('Datagram', {'size': 3, 'data': b'ABC'}), True))
    out.append(('em/aligned 4', Dg5, b'\x04ABCD...', PV('Datagram', {'size': 4, 'data': b'ABCD'}), True))
    # 07_dynamic_field_definitions.md
    Dom = PKT('DomainName', [('length', I(1)), ('name', D(F('length')))])
    Socks = PKT('SOCKS', [('type', I(1, default=1)), ('address', RS(F('type'), [(1, D(C(4))), (4, D(C(16))), (3, Dom)], b'\x00\x00\x00\x00'))])
    out.append(('selector/ipv4', Socks, b'\x01\x01\x02\x03\x04', PV('SOCKS', {'type': 1, 'address': b'\x01\x02\x03\x04'}), True))
    out.append(('selector/domain', Socks, b'\x03\x0bexample.com', PV('SOCKS', {'type': 3, 'address': PV('DomainName', {'length': 11, 'name': b'example.com'})}), True))
    # 09_callables.md
    AV = PKT('AllVariable', [('triplet', I(1)), ('data', D(BIN('mul', F('triplet'), C(3)))), ('seq', S(I(1), BIN('mul', F('triplet'), C(3))))])
    out.append(('expression', AV, b'\x01ABC\x01\x02\x03', PV('AllVariable', {'triplet': 1, 'data': b'ABC', 'seq': [1, 2, 3]}), True))
    # 05_bit_field.md style
    Bt = PKT('IPish', [('version', B(4)), ('header_length', B(4)), ('fragment_offset', B(13)), ('flags', B(3))])
    out.append(('bits', Bt, b'\x45\x00\x3b', PV('IPish', {'version': 4, 'header_length': 5, 'fragment_offset': 7, 'flags': 3}), True))
    return out


def run():
    ok = True
    n = 0
    for name, P, raw, exp, roundtrip in cases():
        n += 1
        try:
            r = refsem.parse(P, raw)
        except Exception as e:
            print('selftest %s: reference parse raised %r' % (name, e))
            ok = False
            continue
        if exp is not None and r.pv != exp:
            print('selftest %s: reference gives %r, the documentation says %r' % (name, r.pv, exp))
            ok = False
        if roundtrip:
            enc, _ = refsem.encode(P, r.pv, {})
            if enc != raw[:len(enc)] or len(enc) != r.high:
                print('selftest %s: reference encodes %r, the documentation says %r' % (name, enc, raw))
                ok = False
    # defaults and pack of the documented default packets
    Folder = PKT('Folder', [('offset_of_file', I(1)), ('file_data', pos(D(C(4)), 'at', F('offset_of_file')))])
    d = refsem.defaults(Folder)
    d.vals['offset_of_file'] = 4
    d.vals['file_data'] = b'ABCD'
    if refsem.encode(Folder, d, {})[0] != b'\x04...ABCD':
        print('selftest at/pack: %r' % (refsem.encode(Folder, d, {})[0],))
        ok = False
    print('reference interpreter vs documentation: %d examples %s' % (n + 1, 'ok' if ok else 'FAILED'))
    return ok
