"""The component alphabet of the declaration language, declaration enumeration, feature scan, inputs."""
import itertools

from mc.ir import (PKT, I, D, DM, DR, DEOS, B, R, RS, S, O, EM, U, pos, F, C, BIN, PV, subpackets)

SUB = PKT('Sub', [('x', I(1)), ('y', D(F('x')))])
PT = PKT('Pt', [('x', I(1)), ('y', I(1, default=2))])
VEC = PKT('Vec', [('h', I(1)), ('v', pos(D(C(1)), 'at', C(2)))])
BAG = PKT('Bag', [('num', I(1)), ('objs', S(I(1), F('num')))])
PTO = PKT('Pto', [('x', I(1)), ('o', O(I(1), F('x'), default=7)), ('l', S(I(1), C(1), default=[4]))])


def _sel_table():
    return [(1, I(2, signed=True)), (2, D(C(1))), (3, SUB)]


def _sel_ints():
    return [(1, I(2)), (2, I(2, signed=True)), (3, I(2, end='little'))]


def components():
    """name -> function(i) -> list of (field name, node); header fields first"""
    c = {}

    def add(name, fn, *tags):
        c[name] = (fn, set(tags))

    # ---- integers
    add('i1', lambda i: [('a%d' % i, I(1))])
    add('i2', lambda i: [('a%d' % i, I(2))])
    add('i2l', lambda i: [('a%d' % i, I(2, end='little'))])
    add('i3', lambda i: [('a%d' % i, I(3))])
    add('i1s', lambda i: [('a%d' % i, I(1, signed=True))])
    add('i2d', lambda i: [('a%d' % i, I(2, default=0x4142))])
    add('i4', lambda i: [('a%d' % i, I(4))], 'big')
    add('i5ls', lambda i: [('a%d' % i, I(5, signed=True, end='little'))], 'big')
    # ---- a user-defined field (no struct code: it splits runs; its values are strings)
    add('u3', lambda i: [('u%d' % i, U(3))])
    add('u1d', lambda i: [('u%d' % i, U(1, default='7f'))])
    add('su2', lambda i: [('n%d' % i, I(1)), ('l%d' % i, S(U(2), F('n%d' % i)))])
    add('ou1', lambda i: [('t%d' % i, I(1)), ('o%d' % i, O(U(1), F('t%d' % i)))])
    add('pu2', lambda i: [('u%d' % i, pos(U(2), 'at', C(2)))])
    # ---- byte strings
    add('d2', lambda i: [('d%d' % i, D(C(2)))])
    add('d0', lambda i: [('d%d' % i, D(C(0)))])
    add('d1q', lambda i: [('d%d' % i, D(C(1), default=b'q'))])
    add('dn', lambda i: [('n%d' % i, I(1)), ('d%d' % i, D(F('n%d' % i)))])
    add('dns', lambda i: [('n%d' % i, I(1, signed=True)), ('d%d' % i, D(F('n%d' % i)))])
    add('dx', lambda i: [('n%d' % i, I(1)), ('d%d' % i, D(BIN('mul', F('n%d' % i), C(2))))])
    add('dl', lambda i: [('n%d' % i, I(1)), ('d%d' % i, D(BIN('add', F('n%d' % i), C(1)), sp='lambda'))])
    add('dm', lambda i: [('n%d' % i, I(1)), ('d%d' % i, D(BIN('sub', C(2), F('n%d' % i))))])
    add('dnz', lambda i: [('n%d' % i, I(1)), ('d%d' % i, D(['call', 'nonzero', F('n%d' % i)], sp='lambda'))])     # the callback raises a bare ValueError() for 0
    add('m0', lambda i: [('d%d' % i, DM(b'\x00'))])
    add('mab', lambda i: [('d%d' % i, DM(b'ab'))])
    add('m0i', lambda i: [('d%d' % i, DM(b'\x00', incl=True))])
    add('rx', lambda i: [('d%d' % i, DR(b'X+', incl=True))])
    add('rxy', lambda i: [('d%d' % i, DR(b'[XY]', incl=True))])
    # expressions compiled WITH flags: the flags belong to the delimiter as much as the pattern text does
    add('rxfi', lambda i: [('d%d' % i, DR(b'x', incl=True, flags='I'))])
    add('rxfs', lambda i: [('d%d' % i, DR(b'X.', incl=True, flags='S'))])
    add('rxlb', lambda i: [('d%d' % i, DR(b'(?<!Y)X', incl=True))])      # a delimiter that looks at the byte BEFORE it
    add('rxwb', lambda i: [('d%d' % i, DR(b'\\bX', incl=True))])
    add('eos', lambda i: [('d%d' % i, DEOS())])
    add('m0nc', lambda i: [('d%d' % i, DM(b'\x00', consume=False))])
    add('rxnk', lambda i: [('d%d' % i, DR(b'X+', incl=False))])
    add('rx1nk', lambda i: [('d%d' % i, DR(b'X', incl=False))])
    # ---- bit runs
    add('b44', lambda i: [('p%d' % i, B(4)), ('q%d' % i, B(4))])
    add('b44d', lambda i: [('p%d' % i, B(4, default=5)), ('q%d' % i, B(4, default=3))])
    add('b35', lambda i: [('p%d' % i, B(3)), ('q%d' % i, B(5))])
    add('b178', lambda i: [('p%d' % i, B(1)), ('q%d' % i, B(7)), ('r%d' % i, B(8))])
    add('b4c8', lambda i: [('p%d' % i, B(4)), ('q%d' % i, B(12)), ('r%d' % i, B(8))])
    # runs wider than a 32-bit and than a 64-bit word
    add('b40', lambda i: [('p%d' % i, B(4)), ('q%d' % i, B(12)), ('r%d' % i, B(20)), ('s%d' % i, B(4))])
    add('b72', lambda i: [('p%d' % i, B(36)), ('q%d' % i, B(36))])
    add('b80', lambda i: [('p%d' % i, B(8)), ('q%d' % i, B(4)), ('r%d' % i, B(4)), ('s%d' % i, B(63)), ('t%d' % i, B(1))])
    # ---- references
    add('r1', lambda i: [('s%d' % i, R(SUB))])
    add('r1b', lambda i: [('s%d' % i, R(SUB, 'bare'))])
    add('r2i', lambda i: [('s%d' % i, R(PT, 'inst', {'x': 1}))])
    add('r2v', lambda i: [('s%d' % i, dict(R(PT, 'var', {'x': 1}), var='proto%d' % i))])
    add('rbv', lambda i: [('s%d' % i, dict(R(BAG, 'var', {'num': 1, 'objs': [5]}), var='protob%d' % i))])
    add('rpto', lambda i: [('s%d' % i, R(PTO, 'inst', {'x': 1}))])
    add('rvec', lambda i: [('s%d' % i, R(VEC))])
    add('rbag', lambda i: [('s%d' % i, R(BAG))])
    add('rs', lambda i: [('t%d' % i, I(1)), ('u%d' % i, RS(F('t%d' % i), _sel_table(), 0))])
    add('rsd', lambda i: [('t%d' % i, I(1)), ('u%d' % i, RS(F('t%d' % i), [(1, I(1)), (3, BAG)], PV('Bag', {'num': 1, 'objs': [9]}), form='lambda'))])
    add('rst', lambda i: [('t%d' % i, I(1)),
                          ('u%d' % i, dict(RS(F('t%d' % i), [(1, I(1)), (2, I(2)), (4, D(C(1)))], 0), shared_table='TABLE%d' % i)),
                          ('v%d' % i, dict(RS(F('t%d' % i), [(1, I(1)), (2, I(2)), (4, D(C(1)))], 0), shared_table='TABLE%d' % i))])
    add('rsts', lambda i: [('t%d' % i, I(1)),
                           ('u%d' % i, dict(RS(F('t%d' % i), [(1, I(2)), (3, SUB)], 0), shared_table='TABS%d' % i)),
                           ('l%d' % i, S(dict(RS(F('t%d' % i), [(1, I(2)), (3, SUB)], 0), shared_table='TABS%d' % i), C(2), default=[]))])
    add('rsl', lambda i: [('t%d' % i, I(1)), ('u%d' % i, RS(F('t%d' % i), _sel_table(), 0, form='lambda'))])
    # alternatives that differ ONLY in signedness / byte order / delimiter handling (same class, same size, same marker), built anew at every call
    add('rsi', lambda i: [('t%d' % i, I(1)), ('u%d' % i, RS(F('t%d' % i), _sel_ints(), 0, form='lambda'))])
    add('rsic', lambda i: [('t%d' % i, I(1)), ('u%d' % i, RS(F('t%d' % i), _sel_ints(), 0))])
    add('rsm', lambda i: [('t%d' % i, I(1)), ('u%d' % i, RS(F('t%d' % i), [(1, DM(b'\x00')), (2, DM(b'\x00', incl=True)), (3, DM(b'\x00\x00'))], b'', form='lambda'))])
    # ---- repeated
    add('s2', lambda i: [('l%d' % i, S(I(1), C(2)))])
    add('s0', lambda i: [('l%d' % i, S(I(1), C(0)))])
    add('sn', lambda i: [('n%d' % i, I(1)), ('l%d' % i, S(I(1), F('n%d' % i)))])
    add('sns', lambda i: [('n%d' % i, I(1, signed=True)), ('l%d' % i, S(I(2), F('n%d' % i)))])
    add('sx', lambda i: [('n%d' % i, I(1)), ('l%d' % i, S(I(1), BIN('mul', F('n%d' % i), C(2))))])
    add('sl', lambda i: [('n%d' % i, I(1)), ('l%d' % i, S(D(C(1)), BIN('add', F('n%d' % i), C(1)), csp='lambda'))])
    add('sm', lambda i: [('n%d' % i, I(1)), ('l%d' % i, S(DM(b'\x00'), F('n%d' % i)))])
    add('sr', lambda i: [('n%d' % i, I(1)), ('l%d' % i, S(R(SUB), F('n%d' % i)))])
    add('srs', lambda i: [('t%d' % i, I(1)), ('l%d' % i, S(RS(F('t%d' % i), _sel_table(), 0), C(2), default=[]))])
    add('srsi', lambda i: [('t%d' % i, I(1)), ('l%d' % i, S(RS(F('t%d' % i), _sel_ints(), 0, form='lambda'), C(2), default=[]))])
    add('ss', lambda i: [('n%d' % i, I(1)), ('l%d' % i, S(I(2, signed=True), F('n%d' % i)))])
    add('ssl', lambda i: [('l%d' % i, S(I(1, signed=True, end='little'), C(2)))])
    add('srem', lambda i: [('l%d' % i, S(I(1), ['rem'], csp='rem'))])
    add('drem', lambda i: [('d%d' % i, D(['rem'], sp='rem'))])
    add('sue', lambda i: [('l%d' % i, S(I(1), until={'u': 'at_end'}))])
    add('suo', lambda i: [('l%d' % i, S(I(1), until={'u': 'off_ge', 'v': 1}))])
    add('suo2', lambda i: [('h%d' % i, I(1)), ('l%d' % i, S(D(C(1)), until={'u': 'off_ge', 'v': 3}))])
    add('sdn', lambda i: [('n%d' % i, dict(I(1), desc={'k': 'autolength', 'of': 'l%d' % i})), ('l%d' % i, S(I(1), F('n%d' % i)))])
    add('ddn', lambda i: [('n%d' % i, dict(I(1), desc={'k': 'autolength', 'of': 'd%d' % i})), ('d%d' % i, D(F('n%d' % i)))])
    add('ddx', lambda i: [('n%d' % i, dict(I(2), desc={'k': 'autolength', 'of': 'd%d' % i})), ('h%d' % i, I(1)), ('d%d' % i, D(BIN('mul', F('n%d' % i), C(1))))])
    add('su', lambda i: [('l%d' % i, S(I(1), until={'u': 'last_eq', 'v': 0}))])
    add('sur', lambda i: [('l%d' % i, S(R(SUB), until={'u': 'last_eq', 'attr': 'x', 'v': 0}))])
    add('sul', lambda i: [('l%d' % i, S(I(1), until={'u': 'len_eq', 'v': 2}))])
    # conditions whose result is a truth VALUE, not a bool (a masked flag bit, the element itself)
    add('suf', lambda i: [('l%d' % i, S(I(1), until={'u': 'last_and', 'v': 2}))])
    add('suv', lambda i: [('l%d' % i, S(I(1), until={'u': 'last_val'}))])
    add('sw', lambda i: [('t%d' % i, I(1)), ('n%d' % i, I(1)), ('l%d' % i, S(I(1), F('n%d' % i), when=F('t%d' % i)))])
    add('swe', lambda i: [('t%d' % i, I(1)), ('l%d' % i, S(I(1), C(2), when=BIN('eq', F('t%d' % i), C(1))))])
    add('suw', lambda i: [('t%d' % i, I(1)), ('l%d' % i, S(I(1), until={'u': 'last_eq', 'v': 0}, when=F('t%d' % i), wsp='lambda'))])
    add('sa', lambda i: [('n%d' % i, I(1)), ('l%d' % i, S(I(1), F('n%d' % i), aligned=2))])
    add('sra', lambda i: [('n%d' % i, I(1)), ('l%d' % i, S(R(SUB), F('n%d' % i), aligned=4))])
    add('srd', lambda i: [('l%d' % i, S(R(PT), C(1), default=[PV('Pt', {'x': 4, 'y': 2}), PV('Pt', {'x': 5, 'y': 6})]))])
    add('sua', lambda i: [('l%d' % i, S(I(1), until={'u': 'last_eq', 'v': 0}, aligned=2))])
    add('sura', lambda i: [('l%d' % i, S(R(SUB), until={'u': 'last_eq', 'attr': 'x', 'v': 0}, aligned=2))])
    add('suoa', lambda i: [('h%d' % i, I(1)), ('l%d' % i, S(D(C(1)), until={'u': 'off_ge', 'v': 4}, aligned=2))])
    add('sd', lambda i: [('l%d' % i, S(I(1), C(2), default=[7, 8]))])
    # ---- optional
    add('o1', lambda i: [('t%d' % i, I(1)), ('o%d' % i, O(I(1), F('t%d' % i)))])
    add('o2', lambda i: [('t%d' % i, I(1)), ('o%d' % i, O(D(C(2)), BIN('eq', F('t%d' % i), C(1))))])
    add('or', lambda i: [('t%d' % i, I(1)), ('o%d' % i, O(R(SUB), BIN('and_', F('t%d' % i), C(2))))])
    add('om', lambda i: [('t%d' % i, I(1)), ('o%d' % i, O(DM(b'\x00'), F('t%d' % i), wsp='lambda'))])
    add('os', lambda i: [('t%d' % i, I(1)), ('o%d' % i, O(I(2, signed=True), F('t%d' % i)))])
    add('od', lambda i: [('t%d' % i, I(1)), ('o%d' % i, O(I(1), F('t%d' % i), default=7))])
    add('ord', lambda i: [('t%d' % i, I(1)), ('o%d' % i, O(R(PT), F('t%d' % i), default=PV('Pt', {'x': 7, 'y': 2})))])
    # payloads that may consume no byte at all (present, yet nothing to read)
    add('oz', lambda i: [('t%d' % i, I(1)), ('n%d' % i, I(1)), ('o%d' % i, O(D(F('n%d' % i)), F('t%d' % i)))])
    add('o0', lambda i: [('t%d' % i, I(1)), ('o%d' % i, O(D(C(0)), F('t%d' % i)))])
    add('oo', lambda i: [('t%d' % i, I(1)), ('o%d' % i, O(I(1), F('t%d' % i))), ('w%d' % i, O(I(1), F('o%d' % i)))])
    # ---- positioning
    add('p_at3', lambda i: [('a%d' % i, pos(I(1), 'at', C(3)))])
    add('p_atn', lambda i: [('n%d' % i, I(1)), ('d%d' % i, pos(D(C(2)), 'at', F('n%d' % i)))])
    add('p_atl', lambda i: [('n%d' % i, I(1)), ('a%d' % i, pos(I(1), 'at', BIN('add', F('n%d' % i), C(1)), sp='lambda'))])
    add('p_atb', lambda i: [('a%d' % i, pos(I(1), 'at', C(2), ref='begins'))])
    add('p_atc', lambda i: [('a%d' % i, pos(I(1), 'at', C(1), ref='current-offset'))])
    add('p_sh1', lambda i: [('a%d' % i, pos(I(1), 'shift', C(1)))])
    add('p_shm1', lambda i: [('a%d' % i, pos(I(1), 'shift', C(-1)))])
    add('p_shm2d', lambda i: [('d%d' % i, pos(D(C(3)), 'shift', C(-2)))])
    add('p_shn', lambda i: [('n%d' % i, I(1)), ('a%d' % i, pos(I(1), 'shift', F('n%d' % i)))])
    add('p_al2', lambda i: [('a%d' % i, pos(I(1), 'aligned', C(2)))])
    add('p_al3', lambda i: [('a%d' % i, pos(I(1), 'aligned', C(3)))])
    add('p_al6i', lambda i: [('a%d' % i, pos(I(1), 'aligned', C(6), ref='innermost-pkt'))])
    add('p_em3', lambda i: [('e%d' % i, pos(EM(), 'aligned', C(3)))])
    add('sa3', lambda i: [('n%d' % i, I(1)), ('l%d' % i, S(I(1), F('n%d' % i), aligned=3))])
    add('p_al4i', lambda i: [('a%d' % i, pos(I(2), 'aligned', C(4), ref='innermost-pkt'))])
    add('p_al2c', lambda i: [('a%d' % i, pos(I(1), 'aligned', C(2), ref='current-offset'))])
    add('p_aln', lambda i: [('n%d' % i, I(1, default=2)), ('a%d' % i, pos(I(1), 'aligned', F('n%d' % i), ref='innermost-pkt'))])
    add('p_atdiv', lambda i: [('n%d' % i, I(1)), ('a%d' % i, pos(I(1), 'at', BIN('floordiv', C(4), F('n%d' % i)), sp='lambda'))])
    add('p_em4', lambda i: [('e%d' % i, pos(EM(), 'aligned', C(4)))])
    add('p_em2i', lambda i: [('e%d' % i, pos(EM(), 'aligned', C(2), ref='innermost-pkt'))])
    add('em', lambda i: [('e%d' % i, EM())])
    add('p_seq', lambda i: [('n%d' % i, I(1)), ('l%d' % i, pos(S(I(1), F('n%d' % i)), 'aligned', C(2)))])
    add('p_ref', lambda i: [('s%d' % i, pos(R(SUB), 'at', C(2)))])
    add('p_d0', lambda i: [('n%d' % i, I(1)), ('d%d' % i, pos(D(F('n%d' % i)), 'at', C(3)))])
    add('p_bits', lambda i: [('p%d' % i, pos(B(4), 'at', C(1))), ('q%d' % i, B(4))])
    # embedded packets: the fields of another class become fields of this one (kept inline in the IR, see ir.embeds)
    def emb(i, flds):
        flds[0][1]['_embed'] = {'name': 'e%d' % i, 'cls': 'Emb%d' % i, 'n': len(flds)}
        return flds
    add('eb1', lambda i: [('h%d' % i, I(1))] + emb(i, [('x%de' % i, I(1)), ('y%de' % i, D(F('x%de' % i)))]))
    add('eb2', lambda i: emb(i, [('x%de' % i, I(2, end='little')), ('y%de' % i, I(3, signed=True)), ('z%de' % i, D(C(1), default=b'q'))]))
    add('ebs', lambda i: emb(i, [('n%de' % i, I(1)), ('l%de' % i, S(I(1), F('n%de' % i)))]) + [('t%d' % i, I(1))])
    add('ebd', lambda i: emb(i, [('n%de' % i, dict(I(1), desc={'k': 'autolength', 'of': 'd%de' % i})), ('d%de' % i, D(F('n%de' % i)))]) + [('t%d' % i, I(1))])
    add('p_opt', lambda i: [('t%d' % i, I(1)), ('o%d' % i, pos(O(I(1), F('t%d' % i)), 'aligned', C(2)))])
    return c


COMPONENTS = components()


def extras():
    """components that only explicit specs name (not part of the pairwise enumeration): integers of every width in every
    byte-order spelling"""
    c = {}
    for n in (1, 2, 3, 4, 5, 6, 7, 8, 9):
        for e in (None, 'big', 'little', 'network', 'local'):
            for sg in (False, True):
                c['x%d%s%s' % (n, (e or 'def')[:3], 's' if sg else 'u')] = (
                    (lambda i, n=n, e=e, sg=sg: [('a%d' % i, I(n, signed=sg, end=e))]), set())
    return c


def _pat(n, lo=1, span=250):
    return bytes((i % span) + lo for i in range(n))


def _boundary():
    """components whose lengths / counts cross a representation boundary (255 / 256 / 257 with one- and two-byte length
    fields, wide integers, long bit runs), with the function that builds their bytes for a given size N"""
    c, b = {}, {}

    def add(name, fn, enc):
        c[name] = (fn, set())
        b[name] = enc
    add('dn2', lambda i: [('n%d' % i, I(2)), ('d%d' % i, D(F('n%d' % i)))], lambda N: N.to_bytes(2, 'big') + _pat(N))
    add('dn2l', lambda i: [('n%d' % i, I(2, end='little')), ('d%d' % i, D(F('n%d' % i)))], lambda N: N.to_bytes(2, 'little') + _pat(N))
    add('dn3', lambda i: [('n%d' % i, I(3)), ('d%d' % i, D(F('n%d' % i)))], lambda N: N.to_bytes(3, 'big') + _pat(N))
    add('sn2', lambda i: [('n%d' % i, I(2)), ('l%d' % i, S(I(1), F('n%d' % i)))], lambda N: N.to_bytes(2, 'big') + _pat(N))
    add('sn2w', lambda i: [('n%d' % i, I(2)), ('l%d' % i, S(I(2, end='little'), F('n%d' % i)))], lambda N: N.to_bytes(2, 'big') + _pat(2 * N))
    add('sr2', lambda i: [('n%d' % i, I(2)), ('l%d' % i, S(R(PT), F('n%d' % i)))], lambda N: N.to_bytes(2, 'big') + _pat(2 * N))
    add('sd4', lambda i: [('n%d' % i, I(2)), ('l%d' % i, S(D(C(4)), F('n%d' % i)))], lambda N: N.to_bytes(2, 'big') + _pat(4 * N))
    add('sd1', lambda i: [('n%d' % i, I(2)), ('l%d' % i, S(D(C(1)), F('n%d' % i)))], lambda N: N.to_bytes(2, 'big') + _pat(N))
    add('dd2', lambda i: [('n%d' % i, dict(I(2), desc={'k': 'autolength', 'of': 'd%d' % i})), ('d%d' % i, D(F('n%d' % i)))],
        lambda N: N.to_bytes(2, 'big') + _pat(N))
    add('dm0', lambda i: [('d%d' % i, DM(b'\x00'))], lambda N: _pat(N) + b'\x00')
    add('dmab', lambda i: [('d%d' % i, DM(b'ab'))], lambda N: _pat(N, 110, 100) + b'ab')
    add('su0', lambda i: [('l%d' % i, S(I(1), until={'u': 'last_eq', 'v': 0}))], lambda N: _pat(N - 1) + b'\x00')
    return c, b


BOUNDARY, BOUNDARY_BYTES = _boundary()
EXTRA = extras()
EXTRA.update(BOUNDARY)


def structure_specs():
    """long declarations (24 components: field names that are prefixes of each other, long runs of fixed fields split by
    variable ones) and holders whose class options differ from those of the class they hold"""
    specs = []
    for base in (['i1', 'i2', 'i3', 'i2l', 'd2', 'i4'], ['i1', 'i1', 'i2', 'dn', 'i1', 'i2l'], ['i2', 'b35', 'i1', 'i1s', 'm0', 'i3'], ['i1', 'p_sh1', 'i2', 'i1', 'sn', 'i2d']):
        for w in 'ab':
            specs.append({'names': base * 4, 'wrapper': w})
        specs.append({'names': base * 4, 'wrapper': 'a', 'opts': {'vectorize': False}})
        specs.append({'names': base * 4, 'wrapper': 'a', 'opts': {'endianness': 'little', 'annotate': False}})
    # long runs of fixed fields of one byte order (17, 20, 33, 40 fields; mixed widths)
    for run in (['i1'] * 17, ['i1'] * 20, ['i2'] * 33, ['i1', 'i2'] * 10, ['i2', 'd2', 'i1', 'i4'] * 10, ['i2l'] * 18 + ['i2'] * 18):
        specs.append({'names': run, 'wrapper': 'a'})
        specs.append({'names': run, 'wrapper': 'b', 'opts': {'annotate': False}})
    # the NESTED class alone runs the field-by-field loop (both directions / one of them) inside holders with generated code
    for c in ('p_at3', 'p_atn', 'p_atl', 'p_al6i', 'p_al4i', 'p_aln', 'p_em2i', 'p_ref', 'p_d0', 'p_al2', 'p_shm1', 'sn', 'r1', 'o1', 'dn'):
        for w in 'bcd':
            for o in ({'generate_for_pack': False, 'generate_for_unpack': False}, {'generate_for_pack': False}, {'generate_for_unpack': False}):
                specs.append({'names': ['i1', c], 'wrapper': w, 'opts': o})
    for c in ('i2', 'x3defu', 'dn', 'sns', 'r1', 'b35', 'm0', 'o1', 'p_al2'):
        for w in 'bc':
            specs.append({'names': [c, 'i2'], 'wrapper': w, 'wopts': {'endianness': 'little'}})
            specs.append({'names': [c, 'i2'], 'wrapper': w, 'wopts': {'align': 4}})
            specs.append({'names': [c, 'i2'], 'wrapper': w, 'opts': {'endianness': 'little'}, 'wopts': {'generate_for_pack': False, 'generate_for_unpack': False}})
    return specs


LADDER = (5, 8, 9, 16, 17, 32, 33, 64, 65, 128, 129, 1024, 1025, 4096, 4097, 8192, 8193)


def boundary_specs(sizes=(255, 256, 257), wrappers='ab', cut=True):
    """declarations over the boundary components with the inputs that cross the boundaries: exact encodings for each size,
    the same with one byte missing, and (one-byte length fields) 255; plus a LADDER of sizes (powers of two and their
    successors up to 8193 - io buffer sizes included) with exact encodings only; plus nesting ladders (a chain of 4..8
    references; a list inside a list inside a list)"""
    specs = []
    for name, enc in BOUNDARY_BYTES.items():
        for w in wrappers:
            ins = []
            for N in sizes:
                body = enc(N) + b'\x07'
                raw = {'a': body, 'b': b'\x09' + body, 'c': b'\x01' + body}[w]
                ins.append(raw)
                if cut:
                    ins.append(raw[:-2])
            if w == 'a':
                for N in LADDER:
                    ins.append(enc(N) + b'\x07')
            specs.append({'names': [name, 'i1'], 'wrapper': w, 'extra_inputs': ins})
    for name, mk in (('dn', lambda N: bytes([N]) + _pat(N)), ('sn', lambda N: bytes([N]) + _pat(N)), ('sr', lambda N: bytes([N]) + b'\x01Q' * N),
                     ('sns', lambda N: bytes([N]) + _pat(2 * N)), ('m0', lambda N: _pat(N) + b'\x00'), ('su', lambda N: _pat(N - 1) + b'\x00')):
        ins = [mk(255) + b'\x07', mk(255)[:-1], mk(254) + b'\x07'] + [mk(N) + b'\x07' for N in LADDER if N < 255]
        specs.append({'names': [name, 'i1'], 'wrapper': 'a', 'extra_inputs': ins})
        specs.append({'names': ['i1', name], 'wrapper': 'c', 'extra_inputs': [b'\x01\x05' + mk(N) for N in (5, 17, 33, 129)] +
                      [bytes([k]) + (b'\x05' + mk(3)) * k for k in (4, 5, 8, 9, 16, 17, 33)]})
    # wide integers and a bit run longer than eight bytes
    for name in ('x9defu', 'x9lits', 'x9locs', 'x9netu'):
        specs.append({'names': [name, 'i1'], 'wrapper': 'a',
                      'extra_inputs': [bytes(range(1, 10)) + b'\x07', b'\xff' * 9 + b'\x07', b'\x80' + b'\x00' * 8 + b'\x07', bytes(range(1, 9))]})
    # constant counts and sizes at the very start of a packet (so that only the start offset decides where they lie)
    for N in (15, 16, 17, 32, 33, 64, 65, 256, 257):
        for elem, width, en in ((I(1), 1, 'int1'), (I(2, end='little'), 2, 'int2l'), (D(C(2)), 2, 'data2')):
            K = PKT('K', [('l', S(elem, C(N))), ('z', I(1))])
            raw = _pat(N * width) + b'\x07'
            specs.append({'P': K, 'tag': 'constant count %d of %s first' % (N, en), 'extra_inputs': [raw, raw[:-1], raw + b'\x01']})
        K = PKT('K', [('d', D(C(N))), ('z', I(1))])
        specs.append({'P': K, 'tag': 'constant size %d first' % N, 'extra_inputs': [_pat(N) + b'\x07', _pat(N)]})
    # far positions: holes longer than 255 / 256 / 4096 bytes
    for m, arg in (('at', 255), ('at', 256), ('at', 257), ('at', 300), ('at', 600), ('aligned', 512), ('shift', 300), ('at', 4097), ('aligned', 8192)):
        for elem, tail in ((I(1), b'A'), (D(C(3)), b'ABC')):
            K = PKT('K', [('h', I(1)), ('x', pos(elem, m, C(arg))), ('z', I(1))])
            where = {'at': arg, 'shift': 1 + arg, 'aligned': arg}[m]
            raw = b'\x07' + b'\x2e' * (where - 1) + tail + b'\x09'
            specs.append({'P': K, 'tag': 'far %s(%d)' % (m, arg), 'extra_inputs': [raw, raw[:-1], raw[:where], b'\x07' + bytes((i % 200) + 1 for i in range(where - 1)) + tail + b'\x09']})
            specs.append({'P': PKT('W', [('pre', I(2)), ('body', R(K))]), 'tag': 'far %s(%d) nested' % (m, arg), 'extra_inputs': [b'\x01\x02' + raw, b'\x01\x02' + raw[:-1]]})
    # nesting ladders: a chain of references 4..8 deep around Data-by-length, and lists of lists of lists
    for depth in (4, 5, 6, 8):
        P = PKT('N0', [('n', I(1)), ('d', D(F('n')))])
        for k in range(1, depth):
            P = PKT('N%d' % k, [('h', I(1)), ('inner', R(P)), ('t', I(1))])
        raw = bytes(range(1, depth)) + b'\x02AB' + bytes(range(depth - 1, 0, -1))
        specs.append({'P': P, 'tag': 'chain of %d references' % depth, 'extra_inputs': [raw, raw[:-1], raw[:depth]]})
    L0 = PKT('L0', [('n', I(1)), ('l', S(I(1), F('n')))])
    L1 = PKT('L1', [('n', I(1)), ('l', S(R(L0), F('n')))])
    L2 = PKT('L2', [('n', I(1)), ('l', S(R(L1), F('n'))), ('z', I(1))])
    inner = b'\x02\x07\x08'
    mid = b'\x03' + inner * 3
    specs.append({'P': L2, 'tag': 'lists of lists of lists', 'extra_inputs': [b'\x02' + mid * 2 + b'\x09', b'\x05' + mid * 5 + b'\x09', b'\x05' + mid * 5,
                                                                             b'\x01\x05' + inner * 5 + b'\x09', b'\x01\x01\x09' + bytes(range(9)) + b'\x09']})
    return specs

# one representative per mechanism, used for pairs in the quick tier and triples in the thorough tier
REDUCED = ['i1', 'i2l', 'i3', 'dn', 'dx', 'm0', 'mab', 'rx', 'rxlb', 'b35', 'r1', 'rs', 'rst', 'sn', 'ss', 'su', 'suo', 'sua', 'sw', 'sa', 'sr', 'o1', 'oz', 'os', 'or', 'eb1', 'u3',
           'p_at3', 'p_atn', 'p_shm1', 'p_shm2d', 'p_al2', 'p_al3', 'p_al4i', 'p_em4', 'p_d0', 'eos']


def make_decl(names, opts=None, wrapper='a', name='K', wopts=None):
    """opts are the class options of the packet under test, wopts those of the holder around it (wrappers b, c)"""
    fields = []
    for i, cn in enumerate(names):
        fields.extend((COMPONENTS.get(cn) or EXTRA[cn])[0](i))
    K = PKT(name, fields, **(opts or {}))
    if wrapper == 'a':
        return K
    if wrapper == 'b':
        return PKT('W', [('pre', I(1)), ('body', R(K))], **(wopts or {}))
    if wrapper == 'c':
        return PKT('W', [('c', I(1)), ('items', S(R(K), F('c')))], **(wopts or {}))
    if wrapper == 'd':
        # three levels: the packet inside an optional reference inside a packet that is repeated inside a packet
        M = PKT('M', [('t', I(1)), ('inner', O(R(K), F('t'))), ('tail', I(1))])
        return PKT('W', [('c', I(1)), ('items', S(R(M), F('c'))), ('end', I(1))])
    raise ValueError(wrapper)


def scan(P):
    """feature set of a declaration (recursively)"""
    feats = set()

    def node_feats(node, top):
        k = node['k']
        feats.add(k)
        if node.get('desc'):
            feats.add('described')
        p = node.get('pos')
        if p:
            feats.add('pos')
            feats.add('pos:' + p['m'])
            ref = p['ref']
            if p['m'] == 'aligned' and ref in (None, 'begins'):
                feats.add('abs')
            if p['m'] == 'at' and ref == 'begins':
                feats.add('abs')
            if p['m'] == 'shift' and p['arg'][0] == 'c' and p['arg'][1] < 0:
                feats.add('backwards')
            if p['m'] == 'at':
                feats.add('backwards')      # an absolute target may lie before the cursor
        if k == 'int':
            if node.get('signed'):
                feats.add('signed')
            if node['n'] not in (1, 2, 4, 8):
                feats.add('oddint')
        elif k == 'data':
            feats.add('data:' + node['mode'])
            if node.get('sp') == 'rem':
                feats.add('rawcb')
            if node['mode'] in ('marker', 'regex'):
                if not node.get('consume', True):
                    feats.add('nonconsume')
                if node['mode'] == 'regex':
                    if not node.get('incl'):
                        feats.add('regex_nonkept')
                    feats.add('regex')
                    if b'$' in node['pat']:
                        feats.add('dollar')
            if node['mode'] == 'eos':
                feats.add('eos')
        elif k == 'ref':
            pkt_feats(node['pkt'])
        elif k == 'refsel':
            for _, t in node['table']:
                if t['k'] == 'pkt':
                    pkt_feats(t)
                else:
                    node_feats(t, False)
        elif k == 'seq':
            if node.get('aligned'):
                feats.add('abs')
                feats.add('elem_aligned')
            if node['until'] is not None:
                feats.add('until')
                if node['until']['u'] == 'at_end':
                    feats.add('rawcb')
            if node.get('csp') == 'rem':
                feats.add('rawcb')
            if node['when'] is not None:
                feats.add('seqwhen')
            node_feats(node['elem'], False)
        elif k == 'opt':
            node_feats(node['elem'], False)

    def pkt_feats(p):
        o = p.get('opts') or {}
        if 'align' in o:
            feats.add('abs')
            feats.add('class_align')
        if 'endianness' in o:
            feats.add('class_endianness')
        if o.get('search_buffer_length'):
            feats.add('window')
        for _, node in p['fields']:
            node_feats(node, True)

    pkt_feats(P)
    return feats


def marker_bytes(P):
    out = set()

    def nf(node):
        if node['k'] == 'data':
            if node['mode'] == 'marker':
                out.update(node['m'])
            elif node['mode'] == 'regex':
                out.update(b for b in node['pat'] if chr(b).isalpha())
                if 'I' in (node.get('flags') or ''):
                    out.update(ord(chr(b).swapcase()) for b in node['pat'] if chr(b).isalpha())
                if 'S' in (node.get('flags') or ''):
                    out.add(0x0a)
        elif node['k'] == 'ref':
            pf(node['pkt'])
        elif node['k'] == 'refsel':
            for _, t in node['table']:
                pf(t) if t['k'] == 'pkt' else nf(t)
        elif node['k'] in ('seq', 'opt'):
            nf(node['elem'])

    def pf(p):
        for _, n in p['fields']:
            nf(n)
    pf(P)
    return out


def byte_alphabet(P, seed=0, maxsyms=6):
    feats = scan(P)
    syms = [0, 1, 2]
    mb = sorted(marker_bytes(P))
    for b in mb:
        if b not in syms:
            syms.append(b)
    if 'refsel' in feats or 'opt' in feats or 'pos' in feats:
        syms.append(3)
    if 'signed' in feats:
        syms.append(0xff)
    filler = [0x71, 0x7a, 0x6b, 0x6a][seed % 4]          # q z k j
    if filler not in syms:
        syms.append(filler)
    if 'eos' in feats or 'dollar' in feats:
        syms.insert(3, 0x0a)          # "$" also matches before a trailing newline: the end of input must really be the end
    if 0xff not in syms:
        syms.append(0xff)
    return syms[:maxsyms]


def all_strings(syms, maxlen):
    """all byte strings of length 0..maxlen over syms, shortest first"""
    for n in range(maxlen + 1):
        for t in itertools.product(syms, repeat=n):
            yield bytes(t)


def input_set(P, seed, budget):
    syms = byte_alphabet(P, seed)
    L = 1
    while sum(len(syms) ** k for k in range(L + 2)) <= budget and L < 8:
        L += 1
    return syms, L


def declarations(tier, comps=None, reduced=None, wrappers=('a', 'b', 'c'), exclude=None, triples=None):
    """simplest first: singles (x wrappers), pairs, triples. Yields (tag, names, wrapper)"""
    comps = comps or list(COMPONENTS)
    reduced = reduced or [c for c in REDUCED if c in comps]
    out = []
    for c in comps:
        for w in wrappers:
            out.append(((c,), w))
    if tier == 'quick':
        for a in reduced:
            for b in reduced:
                out.append(((a, b), 'a'))
    else:
        for a in comps:
            for b in comps:
                for w in wrappers:
                    out.append(((a, b), w))
        tr = triples if triples is not None else reduced
        for a in tr:
            for b in tr:
                for c in tr:
                    out.append(((a, b, c), 'a'))
    return out


def families():
    """same-named classes defined one after the other in ONE module (one cache file): field lists that differ
    only in widths / signedness / the class-wide byte order, under the option sets that decide which code is
    generated"""
    fams = []
    optsets = [{}, {'generate_for_pack': False}, {'generate_for_unpack': False}, {'annotate': False}, {'vectorize': False}]
    for o in optsets:
        fams.append([{'names': ['i2', 'i2'], 'opts': o}, {'names': ['i4', 'i4'], 'opts': o}, {'names': ['i2', 'i2'], 'opts': o}])
        fams.append([{'names': ['i2', 'dn'], 'opts': o}, {'names': ['i2l', 'dn'], 'opts': o}])
        fams.append([{'names': ['i2', 'i1'], 'opts': dict(o, endianness='little')}, {'names': ['i2', 'i1'], 'opts': o},
                     {'names': ['i2', 'i1'], 'opts': dict(o, endianness='big')}])
        fams.append([{'names': ['i1', 'i2'], 'opts': o}, {'names': ['i1s', 'i2'], 'opts': o}])
    fams.append([{'names': ['sn'], 'opts': {}}, {'names': ['sns'], 'opts': {}}, {'names': ['sn'], 'opts': {'generate_for_pack': False}}])
    fams.append([{'names': ['b44', 'i1'], 'opts': {}}, {'names': ['b35', 'i1'], 'opts': {}}])
    return [{'family': f} for f in fams]
