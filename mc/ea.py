"""E-A engine: enumerated declarations -> real classes -> all inputs up to a bound -> property oracle.

A property module provides
    decl_specs(tier)          -> list of spec dicts {'names':(...), 'wrapper':'a', 'opts':{...}, ...}
    check_decl(dc, st, tier)  -> runs the oracle over the inputs of one declaration (dc: DeclCtx)
"""
import itertools

from mc import common, mk, ir, refsem, alphabet
from mc.common import Stats

RAMP = b'ABCDEFGHIJKLMNOP'


class DeclCtx:
    def __init__(self, spec, P, world, mod, seed):
        self.spec = spec
        self.P = P
        self.world = world
        self.mod = mod
        self.K = getattr(mod, P['name'])
        self.pkts = ir.all_pkts(P)
        self.feats = alphabet.scan(P)
        self.seed = seed
        self.src = None

    def case(self, **kw):
        c = {'spec': self.spec}
        c.update(kw)
        return c

    def snippet(self, tail):
        return mk.HEADER + '\n' + self.src + '\n' + tail


def build_decl(spec):
    """IR of a spec"""
    if 'P' in spec:
        return spec['P']
    P = alphabet.make_decl(spec['names'], spec.get('opts'), spec.get('wrapper', 'a'), wopts=spec.get('wopts'))
    if spec.get('shared') is not None:
        # every class of the module uses the very same options dict object
        import copy
        P = copy.deepcopy(P)
        for q in ir.subpackets(P):
            q['opts'] = dict(spec['shared'])
            q['shared'] = True
    return P


def define(spec, seed=0, local=False):
    P = build_decl(spec)
    src = ir.module_src(P, local=local or spec.get('local', False))
    w = mk.World()
    try:
        mod = w.module(src)
    except BaseException:
        w.dispose()
        raise
    dc = DeclCtx(spec, P, w, mod, seed)
    dc.src = src
    return dc


def define_family(spec, seed=0):
    """spec['family'] = list of member specs: one module, the top class of every member defined under the same
    name one after the other. Returns one DeclCtx per member (they share the world)."""
    Ps = [build_decl(m) for m in spec['family']]
    src = ir.family_src(Ps)
    w = mk.World()
    try:
        mod = w.module(src)
    except BaseException:
        w.dispose()
        raise
    dcs = []
    for i, (m, P) in enumerate(zip(spec['family'], Ps)):
        setattr(mod, P['name'], getattr(mod, '%s__%d' % (P['name'], i)))
        dc = DeclCtx(dict(m, family_of=spec['family'], member=i), P, w, mod, seed)
        dc.K = getattr(mod, '%s__%d' % (P['name'], i))
        dc.src = src + '\n# class under test: %s__%d' % (P['name'], i)
        dc.family_index = i
        dcs.append(dc)
    return dcs


def ref_parse(P, raw, start=0):
    """('ok', Ok) | ('fail', Fail) | ('oos', why)"""
    try:
        return ('ok', refsem.parse(P, raw, start))
    except refsem.Fail as f:
        return ('fail', f)
    except refsem.OutOfScope as e:
        return ('oos', str(e))


def impl_unpack(K, raw, start=0):
    """('ok', pkt) | ('err', PacketError) | ('exc', other exception)"""
    from bisturi.packet import PacketError
    try:
        return ('ok', K.unpack(raw, start) if start else K.unpack(raw))
    except PacketError as e:
        return ('err', e)
    except Exception as e:
        return ('exc', e)


def impl_end(K, raw, start=0):
    """end offset returned by unpack_impl on a fresh object (the observation point named by C01/C14)"""
    obj = K(_initialize_fields=False)
    return obj.unpack_impl(raw, start, root=obj)


def impl_pack(pkt):
    from bisturi.packet import PacketError
    try:
        return ('ok', pkt.pack())
    except PacketError as e:
        return ('err', e)
    except Exception as e:
        return ('exc', e)


def budget_for(dc, tier, quick=800, thorough=4000):
    """input budget of a declaration: the three-component declarations of the thorough tier get a smaller one"""
    if tier == 'quick':
        return quick
    return thorough if len(dc.spec.get('names', ())) <= 2 else max(quick, thorough // 3)


def inputs_for(dc, budget, ext=None, start=0):
    """yields (raw, reference result): all strings up to the length the budget allows over the
    declaration's alphabet (shortest first); then - when ext is True, or when ext is None and the
    reference accepted none of them (the declaration's encodings are longer than the bound) - the
    extensions of the longest too-short strings by a position-revealing ramp, one byte at a time, so that
    every truncation point of the longer encodings is present"""
    syms, L = alphabet.input_set(dc.P, dc.seed, budget)
    dc.syms, dc.L = syms, L
    accepted = 0
    longest = []
    for s in alphabet.all_strings(syms, L):
        r = ref_parse(dc.P, s, start)
        if r[0] == 'ok':
            accepted += 1
        elif len(s) == L and r[0] == 'fail' and r[1].kind == 'short':
            longest.append(s)
        yield s, r
    for s in dc.spec.get('extra_inputs', ()):
        yield s, ref_parse(dc.P, s, start)
    if ext is False or (ext is None and accepted):
        return
    if len(longest) > budget // 4:
        # keep the extension affordable: only the strings over the first three symbols
        keep = set(syms[:3])
        longest = [s for s in longest if set(s) <= keep]
    for s in longest:
        for j in range(1, len(RAMP) + 1):
            x = s + RAMP[:j]
            r2 = ref_parse(dc.P, x, start)
            yield x, r2
            if not (r2[0] == 'fail' and r2[1].kind == 'short'):
                if j < len(RAMP):
                    x = s + RAMP[:j + 1]
                    yield x, ref_parse(dc.P, x, start)
                break


def _shard(shard, nshards, payload):
    import importlib
    mod = importlib.import_module(payload['module'])
    tier = payload['tier']
    st = Stats()
    specs = mod.decl_specs(tier)
    for i, spec in enumerate(specs):
        if i % nshards != shard:
            continue
        if spec.get('special'):
            getattr(mod, spec['special'])(st, spec)
            continue
        if spec.get('embed') or spec.get('described'):
            mod.check_embed(st)
            continue
        if spec.get('family'):
            try:
                dcs = define_family(spec, common.SEED)
            except Exception as e:
                st.violate('definition-fails', 'defining the family %r raised %r' % (spec, e), {'spec': spec})
                continue
            try:
                for dc in dcs:
                    st.inc('programs')
                    # helpers look classes up by name in the module: bind the shared name to this member's class
                    setattr(dc.mod, dc.P['name'], dc.K)
                    mod.check_decl(dc, st, tier)
            finally:
                dcs[0].world.dispose()
            continue
        try:
            expect_bad = False
            try:
                P = build_decl(spec)
                for q in ir.subpackets(P):
                    refsem.bits_runs(q)
            except refsem.DefinitionError:
                expect_bad = True
            try:
                dc = define(spec, common.SEED)
            except Exception as e:
                if expect_bad:
                    st.inc('rejected_at_definition')
                    continue
                st.violate('definition-fails', 'defining %r raised %r' % (spec, e), {'spec': spec})
                continue
            if expect_bad:
                dc.world.dispose()
                st.violate('definition-accepts', 'declaration %r should have been rejected' % (spec,), {'spec': spec})
                continue
        except Exception:
            raise
        try:
            st.inc('programs')
            mod.check_decl(dc, st, tier)
            if i % 257 == common.SEED % 257:
                st.sample({'declaration': dc.src, 'alphabet': getattr(dc, 'syms', None), 'maxlen': getattr(dc, 'L', None)})
        finally:
            dc.world.dispose()
    return st


def run(module_name, tier):
    return common.merge_all(common.run_sharded(_shard, {'module': module_name, 'tier': tier}))


def coverage(st, rule, extra=None):
    cov = {
        'states': st.count('states'),
        'transitions': st.n.get('transitions', st.n.get('evaluations', 0)),
        'traces_validated_against_impl': st.n.get('evaluations', 0),
        'evaluations': st.n.get('evaluations', 0),
        'distinct_nontrivial': st.count('states'),
        'programs': st.n.get('programs', 0),
        'rule': rule,
        'exhaustive': True,
        'accepted': st.n.get('accepted', 0),
        'rejected': st.n.get('rejected', 0),
        'out_of_scope': st.n.get('oos', 0),
        'distinct_outcomes': st.count('outcomes'),
        'samples': st.samples,
    }
    for k in ('rejected_at_definition',):
        if k in st.n:
            cov[k] = st.n[k]
    if extra:
        cov.update(extra)
    return cov


def replay_decl(module, case, tier='thorough'):
    """re-runs the oracle of `module` on the declaration of a recorded case; returns violations whose
    signature equals the recorded one first"""
    st = Stats()
    spec = case['spec']
    if spec.get('family_of'):
        dcs = define_family({'family': spec['family_of']}, common.SEED)
        try:
            for dc in dcs[:spec['member'] + 1]:
                if dc.family_index == spec['member']:
                    setattr(dc.mod, dc.P['name'], dc.K)
                    module.check_decl(dc, st, tier, only=case)
        finally:
            dcs[0].world.dispose()
        return st.violations
    dc = define(spec, common.SEED)
    try:
        module.check_decl(dc, st, tier, only=case)
    finally:
        dc.world.dispose()
    return st.violations


# ---------------------------------------------------------------------------------------------
# conformance of unpack with the reference interpretation (used by C06, C08)
# ---------------------------------------------------------------------------------------------
def node_kind(node):
    k = node['k']
    if k == 'int':
        return 'int'
    if k == 'data':
        return 'data ' + node['mode']
    if k in ('seq', 'opt'):
        return '%s of %s' % (k, node_kind(node['elem']))
    if k == 'refsel':
        return 'refsel'
    return k


def kind_of_field(dc, cls, names):
    P = dc.pkts.get(cls)
    for fname, node in (P['fields'] if P else []):
        if fname in names:
            return node_kind(node)
    return '?'


def first_diff(pkts, P, a, b):
    """kind of the first field (depth first) whose values differ between PVs a and b"""
    for fname, node in P['fields']:
        if node['k'] == 'em':
            continue
        x, y = a.vals.get(fname), b.vals.get(fname)
        if x != y or type(x) is not type(y):
            if isinstance(x, ir.PV) and isinstance(y, ir.PV) and x.name == y.name and x.name in pkts:
                return first_diff(pkts, pkts[x.name], x, y)
            return '%s.%s: %s' % (P['name'], fname, node_kind(node)), fname
    return None, None


def conformance(dc, st, raw, r, start=0, with_end=True):
    """compares unpack with the reference result r; reports disagreements; returns (r, u)"""
    st.inc('evaluations')
    if r[0] == 'oos':
        st.inc('oos')
        return r, None
    u = impl_unpack(dc.K, raw, start)
    st.inc('accepted' if u[0] == 'ok' else 'rejected')
    st.add('outcomes', (r[0], u[0]))
    call = '%s.unpack(%r%s)' % (dc.P['name'], raw, (', %d' % start) if start else '')
    srcline = dc.src.replace('\n', '; ')
    if r[0] == 'ok':
        if u[0] != 'ok':
            if u[0] == 'err':
                why = '%s at %r' % (u[1].original_error_message, u[1].fields_stack[0][:2])
                kind = u[1].fields_stack[0][1]
                cls = u[1].fields_stack[0][2]
                kind = kind_of_field(dc, cls, [kind])
            else:
                why, kind = repr(u[1]), '?'
            st.violate('under-accept: %s' % kind, '%s raised (%s) but the reference parses it as %r | %s' % (call, why, r[1].pv, srcline),
                       dc.case(raw=raw, start=start), dc.snippet('print(%s)' % call))
            return r, u
        got = ir.extract(u[1], dc.P, dc.pkts)
        if got != r[1].pv:
            kind, fname = first_diff(dc.pkts, dc.P, r[1].pv, got)
            st.violate('value-mismatch: %s' % kind, '%s -> %r, reference %r | %s' % (call, got, r[1].pv, srcline),
                       dc.case(raw=raw, start=start), dc.snippet('print(%s)' % call))
            return r, u
        if with_end:
            try:
                end = impl_end(dc.K, raw, start)
            except Exception as e:
                end = e
            if end != r[1].end:
                st.violate('end-offset', 'unpack_impl(%r, %d) returned %r, the reference ends at %d | %s' % (raw, start, end, r[1].end, srcline),
                           dc.case(raw=raw, start=start), dc.snippet('p = %s(_initialize_fields=False)\nprint(p.unpack_impl(%r, %d, root=p))' % (dc.P['name'], raw, start)))
    else:
        if u[0] == 'ok':
            f = r[1]
            st.violate('over-accept (%s): %s' % (f.kind, kind_of_field(dc, f.stack[0][2], f.stack[0][1])),
                       '%s succeeded (%r) but the reference rejects it: %s in %s.%s | %s' % (
                           call, ir.extract(u[1], dc.P, dc.pkts), f.why, f.stack[0][2], '/'.join(f.stack[0][1]), srcline),
                       dc.case(raw=raw, start=start), dc.snippet('print(%s)' % call))
    return r, u


def state_key(dc, r, u, raw):
    return (dc.spec.get('tag') or tuple(dc.spec.get('names', ())), dc.spec.get('wrapper'), r[0], u[0] if u else None, len(raw))
