"""The generated-code cache under test (C15, C16): declarations, battery, virtual-process bodies,
history / crash / interleaving explorers on top of mc/fsx.py, and the real-process replay."""
import json
import os
import shutil
import subprocess
import sys
import types

from mc import common, fsx

STEM = 'cachemod'

# All declarations live in ONE source file (class factories), so that every process reads the same file and
# same-named classes K with different declarations end up in the same cache file __pkts__/cachemod_K.py.
# A and A2 are written so that their generated sources have exactly the same length.
SOURCE = '''from bisturi.packet import Packet
from bisturi.field import Int, Data
from bisturi.descriptor import AutoLength


class Plain(object):
    # a user's own descriptor: it stores what it is given and computes nothing (no sync hooks)
    def __get__(self, instance, owner):
        if instance is None:
            return self
        return getattr(instance, self.real_field_name)

    def __set__(self, instance, val):
        setattr(instance, self.real_field_name, val)


def make_A(opts):
    class K(Packet):
        __bisturi__ = opts
        a = Int(1, signed=0)
    return K


def make_A2(opts):
    class K(Packet):
        __bisturi__ = opts
        a = Int(1, signed=1)
    return K


def make_B(opts):
    class K(Packet):
        __bisturi__ = opts
        a = Int(2, signed=0)
    return K


def make_C(opts):
    class K(Packet):
        __bisturi__ = opts
        a = Int(1, signed=0)
        b = Data(1)
    return K


def make_V(opts):
    class K(Packet):
        __bisturi__ = opts
        n = Int(1)
        d = Data(n)
    return K


def _make_E(opts, end):
    # ONE class statement for two declarations that differ only in the byte order (a class factory with a parameter)
    class K(Packet):
        __bisturi__ = opts
        a = Int(2, signed=0, endianness=end)
    return K


def make_E(opts):
    return _make_E(opts, 'big')


def make_E2(opts):
    return _make_E(opts, 'little')


def make_D(opts):
    # D and D2 generate the same per-field code; only the descriptor (its sync hook) differs
    class K(Packet):
        __bisturi__ = opts
        n = Int(1).describe(AutoLength('d'))
        d = Data(n)
    return K


def make_D2(opts):
    class K(Packet):
        __bisturi__ = opts
        n = Int(1).describe(Plain())
        d = Data(n)
    return K


def _make_M(opts, sep):
    # ONE class statement, two declarations whose GENERATED CODE is textually identical (the separator lives in the field object):
    # both are served by the same cache file and, within a process, by the same imported module
    class K(Packet):
        __bisturi__ = opts
        z = Int(1)
        d = Data(until_marker=sep)
    return K


def make_M(opts):
    return _make_M(opts, b'\\n')


def make_M2(opts):
    return _make_M(opts, b';')


def make_U(opts):
    # identifiers are not limited to ascii: the field names reach the generated code as they are
    class K(Packet):
        __bisturi__ = opts
        tama\u00f1o = Int(1)
        se\u00f1al = Int(1, default=3)
    return K


def make_U2(opts):
    class K(Packet):
        __bisturi__ = opts
        tama\u00f1o = Int(1, signed=True)
        se\u00f1al = Int(1, default=3)
    return K


def _make_L(opts, end):
    # a LONG declaration (41 fields, generated pack and unpack code of more than 4 KiB each, a cache file of more than 8 KiB);
    # the two declarations differ in the byte order of the LAST field only
    class K(Packet):
        __bisturi__ = opts
%s        z = Int(2, endianness=end)
    return K


def make_L(opts):
    return _make_L(opts, 'big')


def make_L2(opts):
    return _make_L(opts, 'little')
''' % ''.join('        a%02d = Int(1)\n        b%02d = Int(3)\n' % (i, i) for i in range(20))

OPTS = {
    'def': {},
    'novec': {'vectorize': False},
    'noann': {'annotate': False},
    'off': {'generate_for_pack': False, 'generate_for_unpack': False},
    'uonly': {'generate_for_pack': False},
    'ponly': {'generate_for_unpack': False},
}

LONG = bytes(range(1, 83))
INPUTS = [b'\x00', b'\x7f', b'\xff', b'\x01\x02', b'\xff\xfe', b'\x01x', b'', LONG]
LNAMES = tuple(n for i in range(20) for n in ('a%02d' % i, 'b%02d' % i)) + ('z',)


def _u8(b):
    return b


def base(decl):
    """'A@uonly' names declaration A defined with the option set 'uonly' whatever the option set of the run is"""
    return decl.split('@')[0]


def expected(decl):
    """the reference behaviour of each declaration on the battery (hand-written, 5 lines per declaration)"""
    decl = base(decl)
    out = []
    for raw in INPUTS:
        if decl == 'A':
            out.append(('ok', (raw[0],)) if len(raw) >= 1 else ('err',))
        elif decl == 'A2':
            out.append(('ok', (raw[0] - 256 if raw[0] >= 128 else raw[0],)) if len(raw) >= 1 else ('err',))
        elif decl in ('B', 'E'):
            out.append(('ok', (raw[0] * 256 + raw[1],)) if len(raw) >= 2 else ('err',))
        elif decl == 'E2':
            out.append(('ok', (raw[0] + raw[1] * 256,)) if len(raw) >= 2 else ('err',))
        elif decl in ('D', 'D2'):
            out.append(('ok', (raw[0], raw[1:1 + raw[0]])) if len(raw) >= 1 and len(raw) >= 1 + raw[0] else ('err',))
        elif decl in ('L', 'L2'):
            if len(raw) < 82:
                out.append(('err',))
            else:
                vals = []
                for i in range(20):
                    vals.append(raw[4 * i])
                    vals.append(int.from_bytes(raw[4 * i + 1:4 * i + 4], 'big'))
                vals.append(int.from_bytes(raw[80:82], 'big' if decl == 'L' else 'little'))
                out.append(('ok', tuple(vals)))
        elif decl == 'C':
            out.append(('ok', (raw[0], raw[1:2])) if len(raw) >= 2 else ('err',))
        elif decl in ('M', 'M2'):
            sep = b'\n' if decl == 'M' else b';'
            out.append(('ok', (raw[0], raw[1:raw.index(sep, 1)])) if len(raw) >= 2 and sep in raw[1:] else ('err',))
        elif decl == 'U':
            out.append(('ok', (raw[0], raw[1])) if len(raw) >= 2 else ('err',))
        elif decl == 'U2':
            out.append(('ok', (raw[0] - 256 if raw[0] >= 128 else raw[0], raw[1])) if len(raw) >= 2 else ('err',))
        elif decl == 'V':
            out.append(('ok', (raw[0], raw[1:1 + raw[0]])) if len(raw) >= 1 and len(raw) >= 1 + raw[0] else ('err',))
    packs = {'A': (b'\x00', b'\x05'), 'A2': (b'\x00', b'\x05'), 'B': (b'\x00\x00', b'\x00\x05'), 'C': (b'\x00\x00', b'\x05\x00'),
             'V': (b'\x00', b'\x05'), 'E': (b'\x00\x00', b'\x00\x05'), 'E2': (b'\x00\x00', b'\x05\x00'),
             'L': (bytes(82), b'\x05' + bytes(81)), 'L2': (bytes(82), b'\x05' + bytes(81)), 'D': (b'\x00', b'\x05'), 'D2': (b'\x00', b'\x05'),
             'U': (b'\x00\x03', b'\x05\x03'), 'U2': (b'\x00\x03', b'\x05\x03'), 'M': (b'\x00\n', b'\x05\n'), 'M2': (b'\x00;', b'\x05;')}[decl]
    neg = {'A': ('err',), 'A2': ('ok', b'\xff'), 'B': ('err',), 'C': ('err',), 'V': ('err',), 'E': ('err',), 'E2': ('err',), 'L': ('err',), 'L2': ('err',), 'D': ('err',), 'D2': ('err',), 'U': ('err',), 'U2': ('ok', b'\xff\x03'), 'M': ('err',), 'M2': ('err',)}[decl]
    extra = ()
    if decl == 'D':
        extra = (('ok', b'\x03abc'),)          # K(d=b'abc').pack(): the length is computed
    elif decl == 'D2':
        extra = (('ok', b'\x00abc'),)          # the user's descriptor computes nothing
    return (tuple(out), ('ok', packs[0]), ('ok', packs[1]), neg) + extra


FIELDS = {'A': ('a',), 'A2': ('a',), 'B': ('a',), 'C': ('a', 'b'), 'V': ('n', 'd'), 'E': ('a',), 'E2': ('a',), 'L': LNAMES, 'L2': LNAMES, 'D': ('n', 'd'), 'D2': ('n', 'd'),
          'U': ('tama\u00f1o', 'se\u00f1al'), 'U2': ('tama\u00f1o', 'se\u00f1al'), 'M': ('z', 'd'), 'M2': ('z', 'd')}


def battery(K, decl):
    from bisturi.packet import PacketError
    out = []
    for raw in INPUTS:
        try:
            p = K.unpack(raw)
            out.append(('ok', tuple(getattr(p, f) for f in FIELDS[base(decl)])))
        except PacketError:
            out.append(('err',))
        except Exception as e:
            out.append(('exc', type(e).__name__, str(e)[:80]))

    def pk(**kw):
        try:
            return ('ok', K(**kw).pack())
        except PacketError:
            return ('err',)
        except Exception as e:
            return ('exc', type(e).__name__, str(e)[:80])
    first = FIELDS[base(decl)][0]
    extra = (pk(d=b'abc'),) if base(decl) in ('D', 'D2') else ()
    return (tuple(out), pk(), pk(**{first: 5}), pk(**{first: -1})) + extra


def write_source(scratch):
    path = os.path.join(scratch, STEM + '.py')
    with open(path, 'w', encoding='utf-8') as f:
        f.write(SOURCE)
    os.utime(path, (1000000000, 1000000000))
    return path


def load_factories(scratch):
    """what `import cachemod` does in a fresh process"""
    path = os.path.join(scratch, STEM + '.py')
    mod = types.ModuleType(STEM)
    mod.__file__ = path
    sys.modules[STEM] = mod
    code = _CODE.get(path)
    if code is None:
        code = _CODE[path] = compile(SOURCE, path, 'exec')
    exec(code, mod.__dict__)
    return mod


_CODE = {}


def define(mod, decl, opt):
    """one class definition + battery; returns ('defined', battery) or ('failed', exception class, text)"""
    try:
        K = getattr(mod, 'make_' + base(decl))(dict(OPTS[decl.split('@')[1] if '@' in decl else opt]))
    except fsx.Crash:
        raise
    except BaseException as e:
        return ('failed', type(e).__name__, str(e)[:160]), None
    return ('defined', quiet_battery(K, decl)), K


def quiet_battery(K, decl):
    """the battery is the harness' observation, not part of the process under test: its file accesses
    (linecache reading the generated file when a traceback is formatted) are not scheduling points"""
    run = fsx._RUN[0]
    if run is not None:
        run.set_quiet(True)
    try:
        return battery(K, decl)
    finally:
        if run is not None:
            run.set_quiet(False)


def judge(decl, outcome):
    """None if the outcome is what the declaration demands, else a short reason"""
    if outcome[0] != 'defined':
        return 'the class definition failed: %s: %s' % (outcome[1], outcome[2])
    if outcome[1] != expected(decl):
        exp = expected(decl)
        for i, (g, e) in enumerate(zip(outcome[1][0], exp[0])):
            if g != e:
                return 'unpack(%r) -> %r, the declaration says %r' % (INPUTS[i], g, e)
        return 'pack -> %r, the declaration says %r' % (outcome[1][1:], exp[1:])
    return None


def pkts_dir(scratch):
    return os.path.join(scratch, '__pkts__')


def snapshot_dir(scratch):
    """files of __pkts__ as {relpath: (bytes, mtime)}"""
    out = {}
    root = pkts_dir(scratch)
    for d, dirs, files in os.walk(root):
        for f in files:
            p = os.path.join(d, f)
            with open(p, 'rb') as fh:
                out[os.path.relpath(p, root)] = (fh.read(), int(os.stat(p).st_mtime))
    return out


def restore_dir(scratch, snap):
    root = pkts_dir(scratch)
    shutil.rmtree(root, ignore_errors=True)
    if snap is None:
        return
    os.makedirs(root, exist_ok=True)
    for rel, (data, mtime) in snap.items():
        p = os.path.join(root, rel)
        os.makedirs(os.path.dirname(p), exist_ok=True)
        with open(p, 'wb') as fh:
            fh.write(data)
        os.utime(p, (mtime, mtime))


def snap_key(snap):
    if snap is None:
        return None
    return tuple(sorted((fsx.canon_name(k), common.digest(v[0]).hex(), v[1]) for k, v in snap.items()))


# ---------------------------------------------------------------------------------------------
# one sequential "process" that performs a list of definitions (used by histories and crash follow-ups)
# ---------------------------------------------------------------------------------------------
def seq_run(scratch, clock, segments, crash=None, bufsize=None, fault=None):
    """segments: list of processes; each process = (write_bytecode, [ops]); op = ('define', decl, opt) |
    ('tick',) | ('forget',). Returns (run, results) with results[proc] = list of (op index, decl, outcome)."""
    run = fsx.Run(pkts_dir(scratch), clock, (STEM,), sequential=True, crash=crash, bufsize=bufsize, fault=fault)
    results = []

    def make_body(ops, res):
        def body():
            mod = load_factories(scratch)
            alive = []
            for i, op in enumerate(ops):
                if op[0] == 'define':
                    out, K = define(mod, op[1], op[2])
                    res.append((i, op[1], out))
                    if K is not None:
                        # classes defined earlier in this process must still behave per their own declaration
                        for (j, d0, K0) in alive:
                            b = quiet_battery(K0, d0)
                            if b != expected(d0):
                                res.append((j, d0, ('defined', b)))
                        alive.append((i, op[1], K))
                elif op[0] == 'tick':
                    run.clock += 1
                elif op[0] == 'forget':
                    root = pkts_dir(scratch)
                    if os.path.isdir(root):
                        for f in os.listdir(root):
                            if f.endswith('.py'):
                                fsx._real['remove'](os.path.join(root, f)) if fsx._real else os.remove(os.path.join(root, f))
                elif op[0] == 'bytecode':
                    sys.dont_write_bytecode = not op[1]
            return 'done'
        return body

    for wb, ops in segments:
        res = []
        results.append(res)
        run.add(make_body(ops, res), write_bytecode=wb)
    run.go()
    return run, results


# ---------------------------------------------------------------------------------------------
# real-process replay: the directory state in front of a definition is handed to a real interpreter
# ---------------------------------------------------------------------------------------------
CHILD = r'''
import sys, os, json
sys.path.insert(0, %(verif)r)
os.environ.pop('VERIF_INPROC', None)
sys.dont_write_bytecode = %(dwb)r
from mc import common, cache
import builtins
clock = %(clock)r
scratch = %(scratch)r
_open = builtins.open
class _Stamped:
    def __init__(self, f, path):
        self.f, self.path = f, path
    def __enter__(self):
        return self
    def __exit__(self, *a):
        self.f.close()
        os.utime(self.path, (clock, clock))
        return False
    def __getattr__(self, n):
        return getattr(self.f, n)
def stamped_open(file, mode='r', *a, **k):
    f = _open(file, mode, *a, **k)
    if isinstance(file, str) and file.startswith(scratch) and any(c in mode for c in 'wax+'):
        return _Stamped(f, file)
    return f
builtins.open = stamped_open
_replace = os.replace
def stamped_replace(a, b, *x, **k):
    _replace(a, b, *x, **k)
    if isinstance(b, str) and b.startswith(scratch):
        os.utime(b, (clock, clock))
os.replace = stamped_replace
mod = cache.load_factories(scratch)
out, K = cache.define(mod, %(decl)r, %(opt)r)
print('RESULT ' + common.dumps(out))
'''


def real_define(scratch, clock, decl, opt, write_bytecode, optimize=False, warn_error=False):
    """runs one definition in a REAL interpreter process on the directory as it is; only the time stamp of
    files the process itself writes is set to the harness clock. Returns the outcome."""
    code = CHILD % {'verif': common.VERIF, 'dwb': not write_bytecode, 'clock': clock, 'scratch': scratch, 'decl': decl, 'opt': opt}
    env = dict(os.environ)
    env['PYTHONHASHSEED'] = '0'
    env.pop('PYTHONDONTWRITEBYTECODE', None)
    env.pop('PYTHONOPTIMIZE', None)
    r = subprocess.run([sys.executable] + (['-O'] if (optimize or sys.flags.optimize) else []) + (['-W', 'error'] if warn_error else []) + ['-c', code], capture_output=True, text=True, env=env, timeout=120)
    for line in r.stdout.splitlines():
        if line.startswith('RESULT '):
            out = common.loads(line[7:])
            return _tuplify(out)
    return ('child-failed', r.returncode, (r.stderr or '')[-300:])


def _tuplify(x):
    if isinstance(x, list):
        return tuple(_tuplify(y) for y in x)
    return x


# ---------------------------------------------------------------------------------------------
# replay of a recorded two-process schedule with REAL interpreter processes
# ---------------------------------------------------------------------------------------------
CONC_CHILD = r'''
import sys, os
sys.path.insert(0, %(verif)r)
sys.dont_write_bytecode = %(dwb)r
from mc import common, cache, fsx
out = os.fdopen(os.dup(1), 'w')
run = fsx.RemoteRun(cache.pkts_dir(%(scratch)r), %(clock)r, %(pid)r, sys.stdin, out, %(wb)r, %(bufsize)r)
run.attach()
mod = cache.load_factories(%(scratch)r)
res, K = cache.define(mod, %(decl)r, %(opt)r)
out.write('RESULT ' + common.dumps(res) + '\n')
out.flush()
'''


def real_conc_replay(scratch, clock0, log, decls, opt, wb, bufsize=None):
    """replays the global step order `log` [(pid, op, relpath, detail) | (None,'tick',..)] with two real
    interpreter processes held at every interposed step. Returns (results per process, error or None)."""
    env = dict(os.environ)
    env['PYTHONHASHSEED'] = '0'
    env.pop('PYTHONDONTWRITEBYTECODE', None)
    procs = []
    for pid in (0, 1):
        code = CONC_CHILD % {'verif': common.VERIF, 'dwb': not wb[pid], 'scratch': scratch, 'clock': clock0, 'pid': pid, 'wb': wb[pid],
                             'decl': decls[pid], 'opt': opt, 'bufsize': bufsize}
        procs.append(subprocess.Popen([sys.executable] + (['-O'] if sys.flags.optimize else []) + ['-c', code], stdin=subprocess.PIPE, stdout=subprocess.PIPE, stderr=subprocess.PIPE,
                                      text=True, env=env, bufsize=1))
    clock = clock0
    results = [None, None]
    error = None
    pending = [None, None]

    def next_line(pid):
        while True:
            line = procs[pid].stdout.readline()
            if not line:
                return None
            if line.startswith('RESULT '):
                results[pid] = _tuplify(common.loads(line[7:]))
                continue
            if line.startswith('STEP '):
                return line.split()
    try:
        # both children run up to their first step and wait there
        for pid in (0, 1):
            pending[pid] = next_line(pid)
        for (pid, op, path, detail) in log:
            if pid is None:
                clock += 1
                continue
            got = pending[pid]
            want = [str(pid), op, fsx.canon_name(path or '-')]
            if got is None or got[1:] != want:
                error = 'real process %d is at step %r, the recorded schedule expects %r' % (pid, got and got[1:], want)
                break
            procs[pid].stdin.write('go %d\n' % clock)
            procs[pid].stdin.flush()
            # exactly one process runs at a time: wait until this one has PERFORMED the step, i.e. until it
            # announces its next one (or finishes)
            pending[pid] = next_line(pid)
        for pid in (0, 1):
            if error is None and pending[pid] is not None:
                error = 'real process %d makes a further step %r after the recorded schedule' % (pid, pending[pid][1:])
    finally:
        for p in procs:
            try:
                p.stdin.close()
            except Exception:
                pass
        for pid, p in enumerate(procs):
            try:
                rest = p.stdout.read()
                for line in (rest or '').splitlines():
                    if line.startswith('RESULT '):
                        results[pid] = _tuplify(common.loads(line[7:]))
                p.wait(timeout=60)
            except Exception:
                p.kill()
    return results, error
