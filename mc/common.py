"""Shared machinery: bisturi import, scratch modules, process pool, evidence, violations.

Every explorer in this tree drives the *real* bisturi code (imported from /repo's working tree, or
from $BISTURI_UNDER_TEST when set) over a completely enumerated bounded space.
"""
import atexit
import hashlib
import importlib.util
import json
import linecache
import multiprocessing
import os
import shutil
import sys
import tempfile
import time

VERIF = os.path.dirname(os.path.dirname(os.path.abspath(__file__)))

_under_test = os.environ.get('BISTURI_UNDER_TEST')
if _under_test:
    sys.path.insert(0, _under_test)
elif os.path.isdir('/repo/bisturi'):
    # the editable install already points here; make it explicit so that the working tree is what runs
    sys.path.insert(0, '/repo')

SEED = int(os.environ.get('VERIF_SEED', '0') or 0)
NPROC = int(os.environ.get('VERIF_NPROC', '0') or 0) or min(16, os.cpu_count() or 1)


# ---------------------------------------------------------------------------------------------
# JSON with bytes
# ---------------------------------------------------------------------------------------------
def jdefault(o):
    if isinstance(o, (bytes, bytearray)):
        return {'__b__': bytes(o).hex()}
    if isinstance(o, tuple):
        return list(o)
    if isinstance(o, set):
        return sorted(o)
    return repr(o)


def _tojson(o):
    """bytes -> tagged dict, recursively (json's default hook is not called for dict keys)."""
    if isinstance(o, (bytes, bytearray)):
        return {'__b__': bytes(o).hex()}
    if isinstance(o, dict):
        return {(k if isinstance(k, str) else json.dumps(_tojson(k))): _tojson(v) for k, v in o.items()}
    if isinstance(o, (list, tuple)):
        return [_tojson(x) for x in o]
    if isinstance(o, (str, int, float, bool)) or o is None:
        return o
    return repr(o)


def _fromjson(o):
    if isinstance(o, dict):
        if set(o) == {'__b__'}:
            return bytes.fromhex(o['__b__'])
        return {k: _fromjson(v) for k, v in o.items()}
    if isinstance(o, list):
        return [_fromjson(x) for x in o]
    return o


def dumps(o, **kw):
    return json.dumps(_tojson(o), **kw)


def loads(s):
    return _fromjson(json.loads(s))


def show(v, limit=200):
    s = repr(v)
    return s if len(s) <= limit else s[:limit] + '...'


# ---------------------------------------------------------------------------------------------
# scratch directory + real modules from source text
# ---------------------------------------------------------------------------------------------
_scratch_root = None
_mod_counter = [0]


def scratch_root():
    global _scratch_root
    if _scratch_root is None or _scratch_owner[0] != os.getpid():
        base = '/dev/shm' if os.path.isdir('/dev/shm') and os.access('/dev/shm', os.W_OK) else None
        _scratch_root = tempfile.mkdtemp(prefix='bverif-', dir=base)
        _scratch_owner[0] = os.getpid()
        atexit.register(_cleanup, _scratch_root, os.getpid())
    return _scratch_root


_scratch_owner = [None]


def _cleanup(path, pid):
    if os.getpid() == pid:
        shutil.rmtree(path, ignore_errors=True)


def new_scratch_dir(prefix='d'):
    return tempfile.mkdtemp(prefix=prefix, dir=scratch_root())


class Scratch:
    """Turns source text into a real module living in a real file (so that inspect.getsourcelines and
    bisturi's __pkts__ cache directory work exactly as for user code)."""

    def __init__(self, directory=None):
        self.dir = directory or new_scratch_dir()
        self.mods = []

    def define(self, source, modname=None):
        if modname is None:
            _mod_counter[0] += 1
            modname = 'vm%d_%d' % (os.getpid(), _mod_counter[0])
        path = os.path.join(self.dir, modname + '.py')
        with open(path, 'w') as f:
            f.write(source)
        linecache.checkcache(path)
        spec = importlib.util.spec_from_file_location(modname, path)
        mod = importlib.util.module_from_spec(spec)
        sys.modules[modname] = mod
        self.mods.append(modname)
        try:
            code = compile(source, path, 'exec')
            exec(code, mod.__dict__)
        except BaseException:
            raise
        return mod

    def dispose(self):
        """forget the modules (and the generated __pkts__ modules) and remove the files"""
        for m in self.mods:
            sys.modules.pop(m, None)
            pre = m + '_'
            for k in [k for k in sys.modules if k.startswith(pre)]:
                sys.modules.pop(k, None)
        self.mods = []
        shutil.rmtree(self.dir, ignore_errors=True)
        linecache.clearcache()


# ---------------------------------------------------------------------------------------------
# process pool
# ---------------------------------------------------------------------------------------------
def _worker(args):
    fn, shard, nshards, payload = args
    try:
        return fn(shard, nshards, payload)
    finally:
        # pool workers leave through os._exit: atexit handlers do not run there, so the worker's scratch root is removed here
        global _scratch_root
        if _scratch_root is not None and _scratch_owner[0] == os.getpid():
            shutil.rmtree(_scratch_root, ignore_errors=True)
            _scratch_root = None


def run_sharded(fn, payload=None, nshards=None):
    """fn(shard, nshards, payload) -> picklable partial result. Deterministic: shard i handles the items
    whose index is i modulo nshards. Returns the list of partial results in shard order."""
    n = nshards or NPROC
    if n == 1 or os.environ.get('VERIF_INPROC'):
        return [fn(i, n, payload) for i in range(n)]
    ctx = multiprocessing.get_context('fork')
    with ctx.Pool(n) as pool:
        res = pool.map(_worker, [(fn, i, n, payload) for i in range(n)], chunksize=1)
    return res


# ---------------------------------------------------------------------------------------------
# results
# ---------------------------------------------------------------------------------------------
class Violation:
    """sig: narrow mechanism signature (string) used for known-finding matching and de-duplication.
    what: one-line human description. case: JSON-able payload sufficient for replay."""

    def __init__(self, sig, what, case, snippet=None):
        self.sig = sig
        self.what = what
        self.case = case
        self.snippet = snippet

    def to_dict(self):
        return {'sig': self.sig, 'what': self.what, 'case': self.case, 'snippet': self.snippet}


class Stats:
    """Mergeable counters + bounded sets of distinct canonical items."""

    def __init__(self):
        self.n = {}
        self.sets = {}
        self.samples = []
        self.violations = []   # list of dict
        self.notes = []

    def inc(self, key, by=1):
        self.n[key] = self.n.get(key, 0) + by

    def add(self, key, item):
        self.sets.setdefault(key, set()).add(item)

    def sample(self, s, cap=6):
        if len(self.samples) < cap:
            self.samples.append(s)

    def violate(self, sig, what, case, snippet=None, cap=40):
        # keep the first (simplest-first enumeration) case per signature, bounded overall
        for v in self.violations:
            if v['sig'] == sig:
                v['count'] = v.get('count', 1) + 1
                return
        if len(self.violations) < cap:
            self.violations.append({'sig': sig, 'what': what, 'case': case, 'snippet': snippet, 'count': 1})

    def merge(self, other):
        for k, v in other.n.items():
            self.n[k] = self.n.get(k, 0) + v
        for k, v in other.sets.items():
            self.sets.setdefault(k, set()).update(v)
        for s in other.samples:
            self.sample(s, cap=8)
        for v in other.violations:
            for w in self.violations:
                if w['sig'] == v['sig']:
                    w['count'] = w.get('count', 1) + v.get('count', 1)
                    break
            else:
                self.violations.append(v)
        self.notes.extend(x for x in other.notes if x not in self.notes)
        return self

    def count(self, key):
        return len(self.sets.get(key, ()))


def merge_all(parts):
    st = Stats()
    for p in parts:
        st.merge(p)
    return st


def digest(*parts):
    h = hashlib.blake2b(digest_size=8)
    for p in parts:
        h.update(repr(p).encode())
        h.update(b'|')
    return h.digest()


class Timer:
    def __init__(self):
        self.t0 = time.time()

    def s(self):
        return round(time.time() - self.t0, 3)
