"""C16  The code cache survives crashes and concurrent definitions.

E-C(ii) over the real generate_code / importlib / files (mc/fsx.py):
  * crash points: a process defining d1 is killed before every file-system step and after every byte of
    every write, from several initial cache states; from each resulting directory a fresh process defines
    d2 in {d1, a same-length sibling, a different declaration}: the definition must succeed and behave per d2.
  * interleavings: two processes define (d1, d2) concurrently; every interleaving of their file-system steps
    (plus one clock tick at any position) is covered by depth-first search with a visited set over the
    canonical state; both definitions must succeed and each class must behave per its own declaration.
Distinct crash states and violating traces are replayed with real interpreter processes.
"""
import os
import shutil

from mc import common, cache, fsx
from mc.common import Stats

CLOCK0 = 1500000000
SIBLING = {'A': 'A2', 'A2': 'A', 'B': 'A', 'C': 'V', 'V': 'C', 'L': 'L2', 'L2': 'L', 'U': 'U2', 'U2': 'U'}
OTHER = {'A': 'B', 'A2': 'B', 'B': 'A2', 'C': 'A', 'V': 'A', 'L': 'A', 'L2': 'A', 'U': 'A', 'U2': 'A'}


def init_states(tier):
    """name -> list of preparation processes (write_bytecode, ops)"""
    st = {'empty': []}
    st['module(same)+pyc'] = 'same+'
    st['module(other)+pyc'] = 'other+'
    st['module(sibling)'] = 'sibling-'
    if tier == 'thorough':
        st['module(same)'] = 'same-'
        st['module(sibling)+pyc'] = 'sibling+'
        st['module(other)'] = 'other-'
    return st


def prepare(scratch, d1, opt, how):
    """brings __pkts__ into the named initial state; returns its snapshot (None = no directory)"""
    shutil.rmtree(cache.pkts_dir(scratch), ignore_errors=True)
    if not how:
        return None
    which, pyc = how[:-1], how[-1] == '+'
    d1 = cache.base(d1)
    d0 = {'same': d1, 'other': OTHER[d1], 'sibling': SIBLING[d1]}[which]
    # a second process loads the module the first one wrote: that is when the import system leaves bytecode
    cache.seq_run(scratch, CLOCK0, [(pyc, [('define', d0, opt)]), (pyc, [('define', d0, opt)])])
    return cache.snapshot_dir(scratch)


def follow_ups(d1):
    return [d1, SIBLING[d1], OTHER[d1]]


def crash_shard(shard, nshards, payload):
    st = Stats()
    tier = payload['tier']
    combos = []
    decls = [('A', 'noann'), ('A', 'def'), ('V', 'def')] if tier == 'quick' else [('A', 'noann'), ('A', 'def'), ('A2', 'def'), ('B', 'def'), ('V', 'def'), ('C', 'novec')]
    if payload.get('o'):
        decls = [('A', 'def')]          # under python -O: one declaration from every initial state
    for d1, opt in decls:
        for iname, how in init_states(tier).items():
            combos.append((d1, opt, iname, how))
    if not payload.get('o'):
        # a declaration whose field names are not ascii (what is written must be what is read back), from an empty directory and
        # from one that already holds its module
        for iname, how in init_states(tier).items():
            if tier == 'thorough' or iname in ('empty', 'module(same)+pyc'):
                combos.append(('U', 'def', iname, how))
    scratch = common.new_scratch_dir('c16c')
    cache.write_source(scratch)
    job = 0
    seen_states = set()
    modes = []
    for (d1, opt, iname, how) in combos:
        modes.append((d1, opt, iname, how, None))
        # the same with a BUFFERED file object (512 characters): data reaches the file when the buffer fills up
        # and at close(), so "rename before close" or "crash before close" lose the buffered tail
        if tier == 'thorough' or iname in ('empty', 'module(sibling)'):
            modes.append((d1, opt, iname, how, 512))
        # and fully buffered until close(): the whole text reaches the file in one go at close(), killed after
        # every character - whatever name the file has by then
        if tier == 'thorough' or (iname == 'empty' and opt == 'noann') or (iname == 'module(sibling)' and d1 == 'V'):
            modes.append((d1, opt, iname, how, 10 ** 9))
    for (d1, opt, iname, how, bufsize) in modes:
        per_byte = (tier == 'thorough' or opt == 'noann' or iname == 'empty') and bufsize != 512
        for wb1 in (True, False) if tier == 'thorough' else (True,):
            init = prepare(scratch, d1, opt, how)
            # reference run: the steps of an undisturbed definition
            cache.restore_dir(scratch, init)
            run, res = cache.seq_run(scratch, CLOCK0, [(wb1, [('define', d1, opt)])], bufsize=bufsize)
            steps = [(op, path, detail) for (pid, op, path, detail) in run.log if pid == 0]
            why = cache.judge(d1, res[0][0][2]) if res[0] else 'no result'
            if why:
                st.violate('undisturbed definition', 'init=%s define(%s,%s): %s' % (iname, d1, opt, why), {'kind': 'crash', 'd1': d1, 'opt': opt, 'init': how, 'crash': None, 'wb1': wb1})
            points = []
            for i, (op, path, detail) in enumerate(steps):
                points.append((i, None))
                if op == 'write' and detail:
                    cuts = range(1, detail) if per_byte else sorted({1, detail // 2, detail - 1} - {0, detail})
                    for k in cuts:
                        points.append((i, k))
            points.append((len(steps), None))          # the process completes
            # the same steps FAILING (no space left / permission denied) instead of the process dying there: k = -errno
            if bufsize is None:
                for i in range(len(steps)):
                    points.append((i, -28))
                    if tier == 'thorough':
                        points.append((i, -13))
            for (i, k) in points:
                job += 1
                if job % nshards != shard:
                    continue
                cache.restore_dir(scratch, init)
                if k is not None and k < 0:
                    run, res = cache.seq_run(scratch, CLOCK0, [(wb1, [('define', d1, opt)])], fault=(0, i, -k), bufsize=bufsize)
                    st.inc('fault_runs')
                    out1 = res[0][0][2] if res[0] else None
                    if out1 is not None and out1[0] == 'defined' and cache.judge(d1, out1):
                        st.violate('fault: the definition that met the failing step runs wrong code',
                                   'init=%s; define(%s,%s) with step %d (%s %s) failing with errno %d: %s' % (iname, d1, opt, i, steps[i][0], steps[i][1], -k, cache.judge(d1, out1)),
                                   {'kind': 'crash', 'd1': d1, 'opt': opt, 'init': how, 'crash': [i, k], 'd2': d1, 'tick': 0, 'wb1': wb1, 'wb2': True, 'bufsize': bufsize})
                else:
                    run, res = cache.seq_run(scratch, CLOCK0, [(wb1, [('define', d1, opt)])], crash=(0, i, k), bufsize=bufsize)
                st.inc('crash_runs')
                st.inc('transitions', len(run.log))
                crashed = cache.snapshot_dir(scratch) if os.path.isdir(cache.pkts_dir(scratch)) else None
                ck = cache.snap_key(crashed)
                first_visit = (ck, d1) not in seen_states
                seen_states.add((ck, d1))
                st.add('states', ck)
                if not first_visit:
                    continue
                for d2 in follow_ups(d1):
                    for tick in ((0,) if tier == 'quick' else (0, 1)):
                        for wb2 in ((True,) if tier == 'quick' else (True, False)):
                            cache.restore_dir(scratch, crashed)
                            run2, res2 = cache.seq_run(scratch, CLOCK0 + tick, [(wb2, [('define', d2, opt)])], bufsize=bufsize)
                            st.inc('followups')
                            st.inc('transitions', len(run2.log))
                            out = res2[0][0][2] if res2[0] else ('failed', 'NoResult', run2.error or '')
                            why2 = cache.judge(d2, out)
                            st.add('outcomes', (why2 is None, out[0]))
                            if why2:
                                at = 'before step %d (%s %s)' % (i, steps[i][0], steps[i][1]) if i < len(steps) else 'after completion'
                                if k is not None and k < 0:
                                    at = 'NOT killed: its step %d (%s %s) failed with errno %d' % (i, steps[i][0], steps[i][1], -k)
                                elif k is not None:
                                    at = 'inside step %d (write to %s) after %d of %d characters' % (i, steps[i][1], k, steps[i][2])
                                kind = 'definition fails' if 'definition failed' in why2 else 'runs wrong or truncated code'
                                rwhy = '(not replayed: an earlier case with this signature was)'
                                if not any(v['sig'] == 'crash: later %s' % kind for v in st.violations):
                                    # bind to reality: the same directory handed to a real interpreter
                                    cache.restore_dir(scratch, crashed)
                                    real = cache.real_define(scratch, CLOCK0 + tick, d2, opt, wb2)
                                    st.inc('real_replays')
                                    rwhy = cache.judge(d2, real)
                                    if not rwhy:
                                        st.notes.append('HARNESS: crash %s then define(%s) fails in the harness (%s) but not in a real process' % (at, d2, why2))
                                        continue
                                st.violate('crash: later %s' % kind,
                                           'init=%s%s; process defining (%s,%s) killed %s; a fresh process defining %s%s: %s [real process: %s]' % (
                                               iname, ' (buffered file object)' if bufsize else '', d1, opt, at, d2, ' one second later' if tick else '', why2, rwhy),
                                           {'kind': 'crash', 'd1': d1, 'opt': opt, 'init': how, 'crash': [i, k], 'd2': d2, 'tick': tick, 'wb1': wb1, 'wb2': wb2, 'bufsize': bufsize})
                if job % 499 == common.SEED % 499:
                    st.sample({'init': iname, 'define': [d1, opt], 'killed_at': [i, k], 'step': list(steps[i]) if i < len(steps) else 'end'})
    shutil.rmtree(scratch, ignore_errors=True)
    return st


# ---------------------------------------------------------------------------------------------
# interleavings
# ---------------------------------------------------------------------------------------------
def conc_run(scratch, init, d1, d2, opt, prefix, ticks, wb=(True, True), record_keys=True, bufsize=None):
    cache.restore_dir(scratch, init)
    run = fsx.Run(cache.pkts_dir(scratch), CLOCK0, (cache.STEM,), prefix=prefix, ticks=ticks, record_keys=record_keys, bufsize=bufsize)
    results = [[], []]

    def body(decl, res):
        def b():
            mod = cache.load_factories(scratch)
            out, K = cache.define(mod, decl, opt)
            res.append(out)
            return 'done'
        return b
    run.add(body(d1, results[0]), write_bytecode=wb[0])
    run.add(body(d2, results[1]), write_bytecode=wb[1])
    run.go()
    return run, results


def explore_pair(scratch, init, iname, d1, d2, opt, ticks, st, cap, wb=(True, True), bufsize=None):
    visited = set()
    nruns = [0]
    capped = [False]

    def rec(prefix):
        if nruns[0] >= cap:
            capped[0] = True
            return
        run, results = conc_run(scratch, init, d1, d2, opt, prefix, ticks, wb, True, bufsize)
        nruns[0] += 1
        st.inc('schedules')
        st.inc('transitions', len(run.log))
        if run.error:
            st.notes.append('HARNESS: %s (prefix %r)' % (run.error, prefix))
            return
        for pi, (decl, res) in enumerate(((d1, results[0]), (d2, results[1]))):
            out = res[0] if res else ('failed', 'NoResult', str(run.procs[pi].result))
            why = cache.judge(decl, out)
            st.add('outcomes', (why is None, out[0]))
            if why:
                kind = 'definition fails' if 'definition failed' in why else 'runs wrong or truncated code'
                trace = [(pid, op, os.path.basename(path) if path else None) for (pid, op, path, detail) in run.log]
                if not any(v['sig'] == 'interleaving: %s' % kind for v in st.violations):
                    # bind to reality: the recorded schedule is replayed with two real interpreter processes
                    cache.restore_dir(scratch, init)
                    rres, rerr = cache.real_conc_replay(scratch, CLOCK0, run.log, (d1, d2), opt, wb, bufsize)
                    st.inc('real_schedule_replays')
                    rwhy = None if rerr else cache.judge(decl, rres[pi] if rres[pi] else ('failed', 'NoResult', ''))
                    if rerr or not rwhy:
                        st.notes.append('HARNESS: schedule %r of (%s,%s) init=%s violates in the harness (%s) but the real-process replay says: %s' % (
                            run.choices, d1, d2, iname, why, rerr or 'no violation'))
                        continue
                    why += ' [reproduced by two real interpreter processes held to the same schedule: %s]' % rwhy
                st.violate('interleaving: %s' % kind,
                           'init=%s%s; P0 defines %s, P1 defines %s (%s, bytecode %r), schedule %r: process %d: %s | steps: %s' % (
                               iname, ' (buffered file objects)' if bufsize else '', d1, d2, opt, wb, run.choices, pi, why, ' '.join('%s%s:%s' % ('P', t[0], t[1]) if t[0] is not None else 'tick' for t in trace)),
                           {'kind': 'conc', 'd1': d1, 'd2': d2, 'opt': opt, 'init': init_how[iname], 'schedule': run.choices, 'ticks': ticks, 'wb': list(wb), 'bufsize': bufsize})
        if nruns[0] in (1, 7) and not any(cache.judge(d, r[0] if r else ('failed', 'x', '')) for d, r in ((d1, results[0]), (d2, results[1]))):
            # a passing schedule too: the real processes must take exactly these steps and behave the same
            cache.restore_dir(scratch, init)
            rres, rerr = cache.real_conc_replay(scratch, CLOCK0, run.log, (d1, d2), opt, wb, bufsize)
            st.inc('real_schedule_replays')
            if rerr or rres[0] != results[0][0] or rres[1] != results[1][0]:
                st.notes.append('HARNESS: schedule %r of (%s,%s) init=%s: real-process replay disagrees with the harness: %s' % (
                    run.choices, d1, d2, iname, rerr or 'different outcomes'))
        for i in range(len(prefix), len(run.points)):
            k = run.keys[i]
            if k in visited:
                break
            visited.add(k)
            st.add('states', k)
            for alt in range(1, len(run.points[i][1])):
                rec(run.choices[:i] + [alt])

    rec([])
    return len(visited), nruns[0], capped[0]


init_how = {}


def conc_jobs(tier):
    jobs = []
    if tier == 'quick':
        for (d1, d2) in [('A', 'A'), ('A', 'A2'), ('A', 'B')]:
            for iname, how in init_states(tier).items():
                for ticks in (0, 1):
                    jobs.append(('noann', d1, d2, iname, how or None, ticks, (True, True)))
        jobs.append(('noann', 'A', 'A2', 'module(sibling)', 'sibling-', 0, (True, False)))
        jobs.append(('noann', 'A', 'A2', 'module(other)+pyc', 'other+', 0, (False, False)))
        jobs.append(('def', 'A', 'A2', 'module(other)+pyc', 'other+', 0, (True, True)))
        jobs.append(('def', 'V', 'C', 'empty', None, 0, (True, True)))
        # the same declaration under different generation options (parsing only / serializing only / both)
        jobs.append(('def', 'A@uonly', 'A', 'empty', None, 0, (True, True)))
        jobs.append(('def', 'A', 'A@ponly', 'empty', None, 0, (True, True)))
        jobs.append(('def', 'A@ponly', 'A@uonly', 'module(sibling)', 'sibling-', 0, (True, True)))
        # LONG declarations (a cache file of more than 8 KiB) that differ in their last field only
        jobs.append(('def', 'L', 'L2', 'module(same)+pyc', 'same+', 0, (True, True)))
        jobs.append(('def', 'L', 'L2', 'module(same)', 'same-', 0, (True, True)))
        jobs.append(('def', 'L', 'L2', 'empty', None, 0, (True, True)))
        jobs = [j + (None,) for j in jobs]
        for (d1, d2) in [('A', 'A2'), ('A', 'B')]:
            for iname in ('empty', 'module(sibling)'):
                jobs.append(('noann', d1, d2, iname, init_states(tier)[iname] or None, 0, (True, True), 512))
        return jobs
    for opt in ('noann', 'def'):
        for (d1, d2) in [('A', 'A'), ('A', 'A2'), ('A', 'B'), ('V', 'C'), ('A2', 'A2'), ('L', 'L2')]:
            for iname, how in init_states(tier).items():
                for ticks in (0, 1):
                    for wb in [(True, True), (True, False), (False, False)]:
                        if ticks and wb != (True, True):
                            continue
                        jobs.append((opt, d1, d2, iname, how or None, ticks, wb, None))
                        if opt == 'def' and d1 == d2 and wb == (True, True):
                            jobs.append((opt, d1 + '@uonly', d2, iname, how or None, ticks, wb, None))
                            jobs.append((opt, d1 + '@ponly', d2 + '@uonly', iname, how or None, ticks, wb, None))
                        if not ticks and wb == (True, True):
                            jobs.append((opt, d1, d2, iname, how or None, ticks, wb, 512))
    return jobs


def conc_shard(shard, nshards, payload):
    st = Stats()
    tier = payload['tier']
    scratch = common.new_scratch_dir('c16i')
    cache.write_source(scratch)
    jobs = conc_jobs(tier)
    if payload.get('o'):
        jobs = [('def', 'A', 'A2', 'empty', None, 0, (True, True), None), ('def', 'A', 'A2', 'module(other)+pyc', 'other+', 0, (True, True), None),
                ('def', 'A', 'B', 'module(sibling)', 'sibling-', 0, (True, True), None)]
    cap = 5000 if tier == 'quick' else 60000
    for j, (opt, d1, d2, iname, how, ticks, wb, bufsize) in enumerate(jobs):
        if j % nshards != shard:
            continue
        init_how[iname] = how
        init = prepare(scratch, d1, opt, how)
        nstates, nruns, capped = explore_pair(scratch, init, iname, d1, d2, opt, ticks, st, cap, wb, bufsize)
        st.inc('pairs')
        if capped:
            st.inc('capped')
        if j % 7 == common.SEED % 7:
            st.sample({'pair': [d1, d2], 'options': opt, 'init': iname, 'ticks': ticks, 'buffered': bufsize, 'states': nstates, 'schedules': nruns, 'capped': capped}, cap=4)
    shutil.rmtree(scratch, ignore_errors=True)
    return st


def both_shard(shard, nshards, payload):
    """the few long interleaving searches and the many short crash runs share one pool: in the quick tier
    the first shards take one interleaving job each and the remaining shards split the crash points"""
    tier = payload['tier']
    nconc = len(conc_jobs(tier))
    if tier == 'quick' and nconc < nshards:
        if shard < nconc:
            return ('conc', conc_shard(shard, nconc, payload))
        return ('crash', crash_shard(shard - nconc, nshards - nconc, payload))
    a = crash_shard(shard, nshards, payload)
    b = conc_shard(shard, nshards, payload)
    return ('both', a, b)


def o_shard(shard, nshards, payload):
    """a reduced exploration (one declaration's crash points and failing steps from every initial state, three interleaving jobs)
    inside an interpreter started with -O"""
    st = crash_shard(shard, nshards, payload)
    st.merge(conc_shard(shard, nshards, payload))
    return st


def werror_histories(tier):
    """sequences of REAL interpreter processes defining same-named classes one after the other in one directory, some of them started
    with -W error (every warning is an exception - the way test suites are commonly run): a later definition that meets the cache of
    an earlier one must succeed there too"""
    import itertools as it
    procs = [(d, w) for d in ('A', 'A2') for w in (False, True)]
    out = []
    for n in ((2, 3) if tier == 'quick' else (2, 3, 4)):
        for seq in it.product(procs, repeat=n):
            if any(w for _, w in seq[1:]):          # a process that meets an existing cache under -W error
                out.append(seq)
    return out


def werror_shard(shard, nshards, payload):
    st = Stats()
    for i, seq in enumerate(werror_histories(payload['tier'])):
        if i % nshards != shard:
            continue
        scratch = common.new_scratch_dir('c16w')
        cache.write_source(scratch)
        try:
            for j, (decl, werr) in enumerate(seq):
                out = cache.real_define(scratch, CLOCK0, decl, 'def', True, warn_error=werr)
                st.inc('real_definitions')
                why = cache.judge(decl, out)
                if why:
                    hist = ' ; '.join('python%s: define(%s)' % (' -W error' if w else '', d) for d, w in seq[:j + 1])
                    st.violate('later definition under -W error: %s' % ('definition fails' if 'failed' in why else 'runs wrong or truncated code'),
                               'history of real interpreter processes: %s => %s' % (hist, why), {'kind': 'werror', 'seq': [[d, w] for d, w in seq[:j + 1]]})
                    break
            st.inc('werror_histories')
            st.add('states', ('werror', cache.snap_key(cache.snapshot_dir(scratch))))
            st.add('outcomes', ('werror', len(seq)))
        finally:
            shutil.rmtree(scratch, ignore_errors=True)
    return st


def run(tier):
    parts = common.run_sharded(both_shard, {'tier': tier})
    sw = common.merge_all(common.run_sharded(werror_shard, {'tier': tier}))
    from mc import ea_o
    so = ea_o.run_shard('mc.props.c16', 'o_shard', {'tier': 'quick', 'o': True})
    a, b = Stats(), Stats()
    for part in parts:
        if part[0] == 'conc':
            b.merge(part[1])
        elif part[0] == 'crash':
            a.merge(part[1])
        else:
            a.merge(part[1])
            b.merge(part[2])
    st = Stats()
    st.merge(a)
    st.merge(b)
    st.merge(so)              # the reduced exploration under python -O (its signatures carry the prefix 'python -O:')
    st.merge(sw)              # later definitions in real processes started with -W error
    st.notes.extend(so.notes)
    capped = b.n.get('capped', 0)
    if not st.samples:
        st.sample({'note': 'see rule'})
    cov = {
        'states': a.count('states') + b.count('states'), 'transitions': st.n.get('transitions', 0),
        'traces_validated_against_impl': a.n.get('crash_runs', 0) + a.n.get('followups', 0) + b.n.get('schedules', 0),
        'evaluations': a.n.get('crash_runs', 0) + a.n.get('followups', 0) + b.n.get('schedules', 0),
        'distinct_nontrivial': a.count('states') + b.count('states'), 'programs': 5,
        'crash_points': a.n.get('crash_runs', 0), 'failing_steps': a.n.get('fault_runs', 0), 'distinct_crash_states': a.count('states'), 'follow_up_definitions': a.n.get('followups', 0),
        'interleaving_states': b.count('states'), 'schedules_executed': b.n.get('schedules', 0), 'pairs_explored': b.n.get('pairs', 0),
        'pairs_where_the_schedule_cap_was_hit': capped, 'real_process_replays': st.n.get('real_replays', 0),
        'schedules_replayed_with_two_real_processes': st.n.get('real_schedule_replays', 0),
        'real_process_histories_with_warnings_as_errors': st.n.get('werror_histories', 0),
        'rule': 'crash (declarations A, V and one with non-ascii field names): a definition is killed before every interposed file-system step and after every character of every write (%s) from %d initial '
                'cache states; every one of those steps is also made to FAIL (no space left on device; thorough: permission denied too) instead of the process dying there; '
                'from every distinct resulting directory a fresh process defines the same / the same-length sibling / another declaration; '
                'interleavings: depth-first search over all schedules of the file-system steps of two defining processes with <=1 clock tick, pruned by a '
                'visited set over (directory contents+mtimes, clock, per process: program counter + digest of all its observations); transitions = '
                'interposed file-system steps executed; a reduced exploration (one declaration from every initial state, three pairs) once more inside interpreters started with -O; all sequences of 2..%d real interpreter processes defining A / its sibling where a later one runs with -W error' % ('all combinations' if tier == 'thorough' else 'per character for two combinations, first/middle/last for the others',
                                                         len(init_states(tier)), 3 if tier == 'quick' else 4),
        'exhaustive': capped == 0, 'bounds': {'processes': 2, 'clock_ticks': 1}, 'distinct_outcomes': st.count('outcomes'), 'samples': st.samples,
    }
    errs = [n for n in st.notes if n.startswith('HARNESS')]
    return {'stats': st, 'coverage': cov, 'harness_errors': errs[:5],
            'assumptions': ['two models of a file object are explored: every write() immediately visible, and buffered (512 characters; data reaches the file when the buffer fills, on flush and on close)',
                            'process isolation and the clock are modelled; crash states are re-checked with real interpreter processes when they violate',
                            'close() is not a step of its own: with unbuffered writes it has no visible effect']}


def replay(case):
    scratch = common.new_scratch_dir('c16r')
    cache.write_source(scratch)
    try:
        if case['kind'] == 'werror':
            for decl, werr in case['seq']:
                why = cache.judge(decl, cache.real_define(scratch, CLOCK0, decl, 'def', True, warn_error=werr))
                if why:
                    return [{'sig': 'later definition under -W error', 'what': why}]
            return []
        if case['kind'] == 'crash':
            init = prepare(scratch, case['d1'], case['opt'], case['init'])
            cache.restore_dir(scratch, init)
            cr = case.get('crash')
            if cr is None:
                run, res = cache.seq_run(scratch, CLOCK0, [(case.get('wb1', True), [('define', case['d1'], case['opt'])])])
                why = cache.judge(case['d1'], res[0][0][2])
                return [{'sig': 'undisturbed definition', 'what': why}] if why else []
            if cr[1] is not None and cr[1] < 0:
                cache.seq_run(scratch, CLOCK0, [(case.get('wb1', True), [('define', case['d1'], case['opt'])])], fault=(0, cr[0], -cr[1]), bufsize=case.get('bufsize'))
            else:
                cache.seq_run(scratch, CLOCK0, [(case.get('wb1', True), [('define', case['d1'], case['opt'])])], crash=(0, cr[0], cr[1]), bufsize=case.get('bufsize'))
            run2, res2 = cache.seq_run(scratch, CLOCK0 + case.get('tick', 0), [(case.get('wb2', True), [('define', case['d2'], case['opt'])])], bufsize=case.get('bufsize'))
            out = res2[0][0][2] if res2[0] else ('failed', 'NoResult', '')
            why = cache.judge(case['d2'], out)
            return [{'sig': 'crash', 'what': why}] if why else []
        init = prepare(scratch, case['d1'], case['opt'], case['init'])
        outs = []
        for _ in range(2):
            run, results = conc_run(scratch, init, case['d1'], case['d2'], case['opt'], case['schedule'], case['ticks'], tuple(case.get('wb', (True, True))), False, case.get('bufsize'))
            outs.append(results)
        if outs[0] != outs[1]:
            raise RuntimeError('schedule not reproducible')
        bad = []
        for decl, res in ((case['d1'], outs[0][0]), (case['d2'], outs[0][1])):
            why = cache.judge(decl, res[0] if res else ('failed', 'NoResult', ''))
            if why:
                bad.append({'sig': 'interleaving', 'what': why})
        return bad
    finally:
        shutil.rmtree(scratch, ignore_errors=True)
