"""C07  Bit fields partition their bytes MSB-first and never disturb neighbours.

E-A, single kind: ALL compositions of 8 bits, all (quick: <=4 parts) compositions of 16 bits, a fixed
family of compositions of 24/32/40/48 bits, alone and embedded between an Int(1) and an Int(2), as real
classes; all byte patterns (8 bits) / the lane pattern set on unpack, per-field value set on pack.
Oracle: binary-string slicing.
"""
from mc import common, mk
from mc.common import Stats


def compositions(k, maxparts=None):
    """all compositions of k in lexicographic order of (number of parts, parts)"""
    out = []

    def rec(rest, acc):
        if rest == 0:
            out.append(tuple(acc))
            return
        if maxparts is not None and len(acc) >= maxparts:
            return
        for w in range(1, rest + 1):
            rec(rest - w, acc + [w])
    rec(k, [])
    out.sort(key=lambda c: (len(c), c))
    return out


def wide_family(k):
    fam = set(compositions(k, 2))
    for i in range(k):           # a 1-bit field at each position, the rest split in (at most) two
        left, right = i, k - i - 1
        c = tuple(x for x in (left, 1, right) if x)
        fam.add(c)
    # a field straddling every byte boundary
    for b in range(8, k, 8):
        fam.add(tuple(x for x in (b - 3, 6, k - b - 3) if x))
    return sorted(fam, key=lambda c: (len(c), c))


def programs(tier):
    progs = []
    for c in compositions(8):
        progs.append({'widths': c, 'embed': False})
        progs.append({'widths': c, 'embed': True})
    c16 = compositions(16, 4) if tier == 'quick' else compositions(16)
    for c in c16:
        progs.append({'widths': c, 'embed': False})
    if tier == 'thorough':
        for c in compositions(16, 3):
            progs.append({'widths': c, 'embed': True})
    for k in (24, 32, 40, 48, 56, 64, 72, 80, 128) if tier == 'thorough' else (24, 40, 64, 72):
        for c in wide_family(k):
            progs.append({'widths': c, 'embed': False})
    for c in compositions(8) + [x for x in c16 if len(x) <= 3][::3]:
        for lent in ('int', 'bits'):
            progs.append({'widths': c, 'embed': True, 'lent': lent})
    for p in list(progs):
        if not p['embed'] and len(p['widths']) <= 2:
            progs.append({'widths': p['widths'], 'embed': False, 'gen': False})
    # the class-wide default byte order concerns integers, not bit runs: the run stays MSB-first
    for p in list(progs):
        if sum(p['widths']) >= 16 and len(p['widths']) <= 3 and not p.get('gen') is False:
            for e in ('little', 'local'):
                progs.append({'widths': p['widths'], 'embed': p['embed'], 'endianness': e})
    # totals that are not a multiple of 8 must be rejected at class definition
    for total in range(1, 18):
        if total % 8:
            for c in compositions(total, 2):
                progs.append({'widths': c, 'embed': False, 'bad': True})
            progs.append({'widths': (1,) * total, 'embed': True, 'bad': True})
    return progs


def source(p):
    lines = []
    opts = dict(mk.GEN_ALL_OFF) if p.get('gen') is False else {}
    if p.get('endianness'):
        opts['endianness'] = p['endianness']
    run = ['b%d = Bits(%d)' % (i, w) for i, w in enumerate(p['widths'])]
    if p.get('lent'):
        # the run lives in class E; K borrows it (Ref(E, embed=True)) right after an integer or after another bit run
        pre = 'pre = Int(1)' if p['lent'] == 'int' else 'pre = Bits(8)'
        return mk.class_src('E', run, opts or None) + '\n' + mk.class_src('K', [pre, 'e = Ref(E, embed=True)', 'post = Int(2)'], opts or None)
    if p.get('embed'):
        lines.append('pre = Int(1)')
    lines.extend(run)
    if p.get('embed'):
        lines.append('post = Int(2)')
    return mk.class_src('K', lines, opts or None)


def POST(p):
    """the bytes of post = Int(2) holding 0x1234 in the class' byte order"""
    import sys
    e = p.get('endianness')
    little = e == 'little' or (e == 'local' and sys.byteorder == 'little')
    return b'\x34\x12' if little else b'\x12\x34'


def lane_patterns(nbytes):
    k = nbytes * 8
    if nbytes == 1:
        return [bytes([a]) for a in range(256)]
    vals = set()
    for i in range(k):
        vals.add(1 << i)
        vals.add(((1 << k) - 1) ^ (1 << i))
    alt = int('01' * (k // 2), 2)
    vals.update([0, (1 << k) - 1, alt, alt << 1 & ((1 << k) - 1)])
    for lane in range(nbytes):                 # every byte lane takes all values, others 00 / ff
        for v in range(0, 256, 1 if nbytes == 2 else 17):
            for base in (0, 0xff):
                b = bytearray([base] * nbytes)
                b[lane] = v
                vals.add(int.from_bytes(bytes(b), 'big'))
    return [v.to_bytes(nbytes, 'big') for v in sorted(vals)]


def ref_slices(raw, widths):
    bits = ''.join(format(b, '08b') for b in raw)
    out, pos = [], 0
    for w in widths:
        out.append(int(bits[pos:pos + w], 2))
        pos += w
    return out


def ref_pack(values, widths):
    bits = ''.join(format(v % (1 << w), '0%db' % w) for v, w in zip(values, widths))
    return bytes(int(bits[i:i + 8], 2) for i in range(0, len(bits), 8))


def check_program(p, st):
    src = source(p)
    widths = tuple(p['widths'])
    total = sum(widths)
    tag = 'bytes=%s' % ('1,2,4,8' if total // 8 in (1, 2, 4, 8) else 'other')

    def viol(clause, what, extra):
        case = {'prog': p}
        case.update(extra)
        st.violate('%s %s' % (clause, tag), '%s | %s' % (what, src.replace('\n', '; ')), case, mk.HEADER + src)

    with mk.World() as w:
        st.inc('programs')
        try:
            K = w.module(src).K
        except Exception as e:
            if p.get('bad'):
                st.inc('rejected_at_definition')
                st.add('outcomes', ('defn-rejected', total % 8))
                return
            viol('definition-fails', 'class definition raised %r' % (e,), {})
            return
        if p.get('bad'):
            viol('definition-accepts', 'a run of Bits with total width %d was accepted at class definition' % total, {})
            return
        nbytes = total // 8
        emb = p.get('embed')
        names = ['b%d' % i for i in range(len(widths))]
        # ---- unpack
        for pat in lane_patterns(nbytes):
            raw = (b'\x7e' + pat + POST(p)) if emb else pat
            exp = ref_slices(pat, widths)
            st.inc('evaluations')
            try:
                pk = K.unpack(raw)
                got = [getattr(pk, n) for n in names]
            except Exception as e:
                viol('unpack-raises', 'unpack(%r) raised %r' % (raw, e), {'op': 'unpack', 'raw': raw})
                continue
            if got != exp:
                viol('unpack-slices', 'unpack(%r) -> %r, expected %r' % (raw, got, exp), {'op': 'unpack', 'raw': raw})
                continue
            if emb and (pk.pre, pk.post) != (0x7e, 0x1234):   # post is written in the class' byte order (see POST)
                viol('unpack-neighbours', 'unpack(%r): pre/post = %r' % (raw, (pk.pre, pk.post)), {'op': 'unpack', 'raw': raw})
            st.add('outcomes', ('u', len(widths), tuple(min(v, 1) for v in got)) if len(widths) <= 4 else ('u', len(widths)))
            try:
                out = pk.pack()
            except Exception as e:
                out = e
            if out != raw:
                viol('unpack-pack', 'unpack(%r).pack() = %r' % (raw, out), {'op': 'unpack', 'raw': raw})
        # ---- histories on ONE packet object: the shared integer is already populated when pack() runs
        #      (unpack -> set one field -> pack;  pack -> set one field -> pack)
        for base in (b'\xff' * nbytes, b'\x00' * nbytes, bytes([0xa5] * nbytes)):
            raw = (b'\x7e' + base + POST(p)) if emb else base
            cur = ref_slices(base, widths)
            for i, wd in enumerate(widths):
                for v in (0, 1, (1 << wd) - 1, (1 << wd) >> 1):
                    vals = list(cur)
                    vals[i] = v
                    exp = ref_pack(vals, widths)
                    expraw = (b'\x7e' + exp + POST(p)) if emb else exp
                    st.inc('evaluations')
                    try:
                        pk = K.unpack(raw)
                        setattr(pk, names[i], v)
                        out1 = pk.pack()
                        # and once more from a packed packet: raise the field to all-ones, pack, lower it again, pack
                        setattr(pk, names[i], (1 << wd) - 1)
                        pk.pack()
                        setattr(pk, names[i], v)
                        out2 = pk.pack()
                    except Exception as e:
                        viol('history-raises', 'unpack(%r); set %s=%r; pack() raised %r' % (raw, names[i], v, e), {'op': 'history', 'raw': raw, 'field': i, 'value': v})
                        break
                    if out1 != expraw:
                        viol('stale-bits after unpack', 'p = unpack(%r); p.%s = %r; p.pack() = %r, expected %r' % (raw, names[i], v, out1, expraw),
                             {'op': 'history', 'raw': raw, 'field': i, 'value': v})
                        break
                    if out2 != expraw:
                        viol('stale-bits after pack', 'p = unpack(%r); p.%s = all-ones; p.pack(); p.%s = %r; p.pack() = %r, expected %r' % (raw, names[i], names[i], v, out2, expraw),
                             {'op': 'history', 'raw': raw, 'field': i, 'value': v})
                        break
        # ---- pack: per field value set with neighbours all-zeros / all-ones
        for i, wd in enumerate(widths):
            for v in (0, 1, (1 << wd) - 1, 1 << wd, (1 << wd) + 1, -1, -(1 << (wd - 1)), 3 << wd):
                for ones in (False, True):
                    vals = [((1 << x) - 1) if ones else 0 for x in widths]
                    vals[i] = v
                    exp = ref_pack(vals, widths)
                    expraw = (b'\x7e' + exp + POST(p)) if emb else exp
                    st.inc('evaluations')
                    kw = dict(zip(names, vals))
                    if emb:
                        kw.update(pre=0x7e, post=0x1234)
                    try:
                        out = K(**kw).pack()
                    except Exception as e:
                        viol('pack-raises', 'K(%r).pack() raised %r' % (kw, e), {'op': 'pack', 'values': vals})
                        continue
                    if out != expraw:
                        viol('pack-bits', 'K(%r).pack() = %r, expected %r (each value mod 2^width in its own slice)' % (kw, out, expraw),
                             {'op': 'pack', 'values': vals})
                    st.add('outcomes', ('p', min(i, 3), v >= (1 << wd), v < 0, ones))


SEPS = {
    # separator between two runs: (declaration, its bytes, how its value reads)
    'int': ('Int(1)', b'\x7e', 0x7e),
    'data': ("Data(until_marker=b'\\x00')", b'Q\x00', b'Q'),
    'seq': ('Int(1).repeated(1)', b'\x7e', [0x7e]),
    'em': ('Em()', b'', None),
}


def multi_programs(tier):
    """SEVERAL runs in one class, separated by a field that is not a bit field: each run is its own shared integer"""
    progs = []
    c8 = compositions(8, 2)
    for a in c8:
        for b in c8:
            for sep in ('int', 'data', 'seq'):
                progs.append({'multi': [a, b], 'sep': sep})
    two = compositions(16, 2)
    for a in compositions(8, 3):
        for b in (two if tier == 'thorough' else two[::2]):
            progs.append({'multi': [a, b], 'sep': 'int'})
            progs.append({'multi': [b, a], 'sep': 'int'})
    for t in ([(4, 4), (3, 5), (1, 7)], [(3, 13), (8,), (6, 2)], [(1, 1, 6), (12, 12), (5, 3)], [(8,), (8,), (8,)], [(2, 6), (7, 1), (4, 4), (3, 13)]):
        for sep in ('int', 'data'):
            progs.append({'multi': t, 'sep': sep})
            progs.append({'multi': t, 'sep': sep, 'gen': False})
    # runs that are each NOT a multiple of 8 although the widths of the whole class add up to one: rejected at class definition
    for a, b in (((4,), (4,)), ((3,), (5,)), ((1, 2), (5,)), ((4, 8), (4,)), ((7,), (9,)), ((4,), (12,)), ((2,), (3, 3))):
        for sep in ('int', 'data', 'seq'):       # (not Em(): whether a byte-less placeholder separates two runs is not spelled out)
            progs.append({'multi': [a, b], 'sep': sep, 'bad': True})
    # ... and a good run next to a bad one
    for a, b in (((4, 4), (3,)), ((3,), (4, 4)), ((8,), (4, 5))):
        progs.append({'multi': [a, b], 'sep': 'int', 'bad': True})
    return progs


def multi_source(p):
    opts = dict(mk.GEN_ALL_OFF) if p.get('gen') is False else None
    lines = []
    for r, widths in enumerate(p['multi']):
        if r:
            lines.append('s%d = %s' % (r, SEPS[p['sep']][0]))
        lines.extend('r%db%d = Bits(%d)' % (r, i, w) for i, w in enumerate(widths))
    return mk.class_src('K', lines, opts)


def check_multi(p, st):
    src = multi_source(p)
    runs = [tuple(w) for w in p['multi']]
    decl, sepraw, sepval = SEPS[p['sep']]

    def viol(clause, what, extra):
        case = {'prog': p}
        case.update(extra)
        st.violate('%s (several runs)' % clause, '%s | %s' % (what, src.replace('\n', '; ')), case, mk.HEADER + src)

    with mk.World() as w:
        st.inc('programs')
        try:
            K = w.module(src).K
        except Exception as e:
            if p.get('bad'):
                st.inc('rejected_at_definition')
                st.add('outcomes', ('defn-rejected-multi', p['sep']))
                return
            viol('definition-fails', 'class definition raised %r' % (e,), {})
            return
        if p.get('bad'):
            viol('definition-accepts', 'runs of Bits of total widths %r (none a multiple of 8... or one of them not) were accepted at class definition' % ([sum(r) for r in runs],), {})
            return
        names = [['r%db%d' % (r, i) for i in range(len(ws))] for r, ws in enumerate(runs)]

        def wire(pats):
            return sepraw.join(pats)

        def expect_fields(pats):
            out = {}
            for r, ws in enumerate(runs):
                out.update(zip(names[r], ref_slices(pats[r], ws)))
                if r and sepval is not None:
                    out['s%d' % r] = sepval
            return out

        def read(pk):
            out = {}
            for r in range(len(runs)):
                for n in names[r]:
                    out[n] = getattr(pk, n)
                if r and sepval is not None:
                    out['s%d' % r] = getattr(pk, 's%d' % r)
            return out
        # ---- unpack: one run walks through its patterns, the others hold 00.. / ff.. / a5..
        for r, ws in enumerate(runs):
            nb = sum(ws) // 8
            for fill in (0x00, 0xff, 0xa5):
                for pat in lane_patterns(nb):
                    pats = [bytes([fill]) * (sum(x) // 8) for x in runs]
                    pats[r] = pat
                    raw = wire(pats)
                    exp = expect_fields(pats)
                    st.inc('evaluations')
                    try:
                        pk = K.unpack(raw)
                        got = read(pk)
                    except Exception as e:
                        viol('unpack-raises', 'unpack(%r) raised %r' % (raw, e), {'op': 'unpack', 'raw': raw})
                        break
                    if got != exp:
                        viol('unpack-slices', 'unpack(%r) -> %r, expected %r' % (raw, got, exp), {'op': 'unpack', 'raw': raw})
                        break
                    try:
                        out = pk.pack()
                    except Exception as e:
                        out = e
                    if out != raw:
                        viol('unpack-pack', 'unpack(%r).pack() = %r' % (raw, out), {'op': 'unpack', 'raw': raw})
                        break
                    st.add('outcomes', ('um', len(runs), r, fill, min(int.from_bytes(pat, 'big'), 1)))
        # ---- pack: one field takes its value set, every other bit field all-zeros / all-ones
        for r, ws in enumerate(runs):
            for i, wd in enumerate(ws):
                for v in (0, 1, (1 << wd) - 1, 1 << wd, -1, 3 << wd):
                    for ones in (False, True):
                        vals = [[((1 << x) - 1) if ones else 0 for x in run] for run in runs]
                        vals[r][i] = v
                        expraw = wire([ref_pack(vals[k], runs[k]) for k in range(len(runs))])
                        kw = {}
                        for k in range(len(runs)):
                            kw.update(zip(names[k], vals[k]))
                            if k and sepval is not None:
                                kw['s%d' % k] = sepval
                        st.inc('evaluations')
                        try:
                            out = K(**kw).pack()
                        except Exception as e:
                            viol('pack-raises', 'K(%r).pack() raised %r' % (kw, e), {'op': 'pack', 'values': vals})
                            continue
                        if out != expraw:
                            viol('pack-bits', 'K(%r).pack() = %r, expected %r (each run its own integer, each value mod 2^width in its own slice)' % (kw, out, expraw),
                                 {'op': 'pack', 'values': vals})
                        st.add('outcomes', ('pm', r, min(i, 3), v >= (1 << wd), v < 0, ones))


def _shard(shard, nshards, payload):
    st = Stats()
    progs = programs(payload['tier']) + multi_programs(payload['tier'])
    if payload.get('o'):
        # under python -O: the definitions that must be rejected, and the one-byte compositions
        progs = [p for p in progs if p.get('bad') or ('widths' in p and sum(p['widths']) == 8 and not p.get('lent') and p.get('gen') is not False)]
    for i, p in enumerate(progs):
        if i % nshards != shard:
            continue
        if 'multi' in p:
            check_multi(p, st)
        else:
            check_program(p, st)
        if i % 1009 == common.SEED % 1009:
            st.sample({'class': multi_source(p) if 'multi' in p else source(p)})
    return st


def run(tier):
    st = common.merge_all(common.run_sharded(_shard, {'tier': tier}))
    from mc import ea_o
    so = ea_o.run_shard('mc.props.c07', '_shard', {'tier': tier, 'o': True})      # rejections and one-byte runs once more under python -O
    st.merge(so)
    st.notes.extend(so.notes)
    cov = {
        'states': st.count('outcomes'),
        'transitions': st.n.get('evaluations', 0),
        'traces_validated_against_impl': st.n.get('evaluations', 0),
        'evaluations': st.n.get('evaluations', 0),
        'distinct_nontrivial': st.count('outcomes'),
        'programs': st.n.get('programs', 0),
        'rejected_at_definition': st.n.get('rejected_at_definition', 0),
        'rule': 'all 128 compositions of 8 bits (alone and between Int(1)/Int(2)), %s compositions of 16 bits, the 24/32/40/48-bit family '
                '(<=2 parts, a 1-bit field at every position, a field straddling every byte boundary); unpack: all 256 patterns (1 byte) / '
                'walking-one, walking-zero, alternating and byte-lane patterns; pack: per field {0,1,2^w-1,2^w,2^w+1,-1,-2^(w-1),3*2^w} with '
                'neighbours all-zeros and all-ones; histories on one packet (unpack, set a field, pack; raise it, pack, lower it, pack); '
                'several runs in one class separated by an integer / a delimited string / a list (pairs of <=2-part compositions of 8 bits x 3 separators, 8-bit x 16-bit pairs, '
                'three to four runs; every run walks its patterns while the others hold 00/ff/a5; runs that are not multiples of 8 although the class total is must fail); '
                'all runs of total 1..17 bits not a multiple of 8 must fail at class definition; those and the one-byte compositions once more in child interpreters started with -O' %
                ('all 32768' if tier == 'thorough' else 'all 576 <=4-part'),
        'exhaustive': True,
        'bounds': {'tier': tier},
        'samples': st.samples,
    }
    return {'stats': st, 'coverage': cov, 'harness_errors': [n for n in st.notes if n.startswith('HARNESS')],
            'assumptions': ['only full-length inputs (short reads of 3/5/6-byte groups belong to C04)']}


def replay(case):
    st = Stats()
    p = case['prog']
    if 'multi' in p:
        check_multi(p, st)
        return st.violations
    p['widths'] = tuple(p['widths'])
    check_program(p, st)
    return st.violations
