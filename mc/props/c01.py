"""C01  Parse-then-serialize reproduces the parsed bytes.

E-A: for every declaration (minus the by-design exclusions) and every input/start offset on which unpack
succeeds with the reference's values: if two fields consumed overlapping bytes pack() must raise
PacketError; otherwise pack() equals raw at every consumed byte (relative to the offset), is '.' at
every other position and is no longer than the region the parse traversed.
"""
import sys

from mc import common, ea, alphabet, ir

MODULE = 'mc.props.c01'
EXCLUDED = {'rxnk', 'm0nc'}      # regex delimiter not kept that can match different strings; consume_delimiter=False
PREFIX = b'\xee\xdd\xcc'


def optimized_specs(tier):
    """every component alone, once more under python -O (assert statements stripped)"""
    return [{'names': [c], 'wrapper': 'a'} for c in alphabet.COMPONENTS if c not in globals().get('EXCLUDED', ())]


def decl_specs(tier):
    comps = [c for c in alphabet.COMPONENTS if c not in EXCLUDED]
    specs = []
    for names, w in alphabet.declarations(tier, comps=comps):
        specs.append({'names': list(names), 'wrapper': w})
    # class options
    for c in ('i2', 'sns', 'rs', 'rsl', 'srs', 'rsd', 'ss', 'os', 'r1', 'o1'):
        specs.append({'names': [c, 'i2'], 'wrapper': 'a', 'opts': {'endianness': 'little'}})
    for c in ('i1', 'dn', 'sn', 'sr', 'r1', 'm0', 'o1', 'em', 'su', 'rvec'):
        for al in (2, 3, 4, 6):
            specs.append({'names': ['i1', c], 'wrapper': 'a', 'opts': {'align': al}})
            specs.append({'names': [c, 'i2'], 'wrapper': 'b', 'opts': {'align': al}})
    for c in ('m0', 'mab', 'rx', 'sm', 'om'):
        for sbl in (0, 2, 3):
            specs.append({'names': [c, 'i1'], 'wrapper': 'a', 'opts': {'search_buffer_length': sbl}})
    for c in ('i1', 'i3', 'dn', 'm0', 'b35', 'sn', 'su', 'sr', 'o1', 'r1', 'rs', 'p_at3', 'p_al2', 'p_al4i', 'p_em4', 'sdn', 'rst'):
        specs.append({'names': [c], 'wrapper': 'd'})
    for c in ('p_at3', 'p_al2', 'p_al4i', 'p_shm1', 'p_atn', 'p_em2i', 'p_seq', 'p_ref'):
        for al in (2, 4):
            specs.append({'names': ['i1', c], 'wrapper': 'a', 'opts': {'align': al}})
            specs.append({'names': [c, 'dn'], 'wrapper': 'b', 'opts': {'align': al}})
    for c in ('r1', 'sr', 'rs', 'rbag'):
        specs.append({'names': [c, 'i2'], 'wrapper': 'b', 'shared': {}})
        specs.append({'names': ['i2', c], 'wrapper': 'c', 'shared': {'endianness': 'little'}})
    for c in ('i1', 'dn', 'sn', 'r1', 'b35', 'p_at3', 'rs', 'o1'):
        specs.append({'names': [c, 'i3', c], 'wrapper': 'a', 'opts': {'generate_for_pack': False, 'generate_for_unpack': False}})
    # every width in every byte-order spelling, per field and as the class-wide default, alone / in a list / referenced
    for n in (1, 2, 3, 4, 5, 8, 9):
        for sg in 'us':
            for e in ('def', 'big', 'lit', 'net', 'loc'):
                specs.append({'names': ['x%d%s%s' % (n, e, sg), 'i1'], 'wrapper': 'a' if sg == 'u' else 'c'})
            for ce in ('little', 'network', 'local'):
                specs.append({'names': ['i1', 'x%ddef%s' % (n, sg)], 'wrapper': 'a' if sg == 's' else 'b', 'opts': {'endianness': ce}})
    for c in ('sns', 'ss', 'os', 'p_seq', 'sw'):
        for ce in ('little', 'local'):
            specs.append({'names': [c, 'x3defu'], 'wrapper': 'a', 'opts': {'endianness': ce}})
    specs.extend(alphabet.boundary_specs())
    specs.extend(alphabet.structure_specs())
    specs.extend(alphabet.families())
    return specs


def owner_kind(dc, path):
    """kind of the top-level field owning a consumed interval"""
    P = dc.P
    node = None
    for fname, n in P['fields']:
        if fname == path[0]:
            node = n
    return ea.node_kind(node) if node else '?'


def check_one(dc, st, raw, r, start):
    st.inc('evaluations')
    if r[0] != 'ok':
        st.inc('oos' if r[0] == 'oos' else 'ref_rejected')
        if r[0] == 'fail' and start == 0 and not (dc.feats & {'pos', 'abs', 'class_align', 'elem_aligned', 'em', 'nonconsume', 'regex_nonkept', 'eos', 'rawcb', 'dollar'}):
            # the reference rejects the input; whether the library does is C04's business - but IF it parses it, a purely sequential
            # declaration must serialize the result to exactly the bytes it traversed, and those must exist
            u = ea.impl_unpack(dc.K, raw, 0)
            if u[0] == 'ok':
                try:
                    end = ea.impl_end(dc.K, raw, 0)
                except Exception:
                    return
                out = ea.impl_pack(u[1])
                if isinstance(end, int) and (end > len(raw) or out[0] != 'ok' or out[1] != raw[:end]):
                    call = '%s.unpack(%r).pack()' % (dc.P['name'], raw)
                    st.violate('sequential round trip differs', '%s -> %r; the parse ended at %r of %d bytes: %r | %s' % (
                        call, out[1], end, len(raw), raw[:end], dc.src.replace('\n', '; ')), dc.case(raw=raw, start=0), dc.snippet('print(%s)' % call))
        return
    ok = r[1]
    u = ea.impl_unpack(dc.K, raw, start)
    if u[0] != 'ok':
        st.inc('disagree')          # C06/C08's business
        return
    if ir.extract(u[1], dc.P, dc.pkts) != ok.pv:
        st.inc('disagree')
        # the values are C05/C06/C08's business - but a purely sequential declaration (no positioning, no
        # alignment) consumes every byte of [start, end), so the round trip can be judged without them
        if not (dc.feats & {'pos', 'abs', 'class_align', 'elem_aligned', 'em'}):
            try:
                end = ea.impl_end(dc.K, raw, start)
            except Exception:
                return
            out = ea.impl_pack(u[1])
            if isinstance(end, int) and start <= end <= len(raw) and (out[0] != 'ok' or out[1] != raw[start:end]):
                call = '%s.unpack(%r%s).pack()' % (dc.P['name'], raw, (', %d' % start) if start else '')
                st.violate('sequential round trip differs', '%s -> %r but the parse consumed %r | %s' % (call, out[1], raw[start:end], dc.src.replace('\n', '; ')),
                           dc.case(raw=raw, start=start), dc.snippet('print(%s)' % call))
        elif start == 0 and not (dc.feats & {'nonconsume', 'regex_nonkept', 'eos', 'rawcb', 'dollar'}):
            # with positioning / alignment the consumed region is not known without the reference - but whatever was parsed,
            # serializing it and parsing THAT must give the same packet and the same bytes again (the layout the two
            # directions use is the same one)
            got = ir.extract(u[1], dc.P, dc.pkts)
            out = ea.impl_pack(u[1])
            if out[0] == 'ok':
                u2 = ea.impl_unpack(dc.K, out[1])
                again = ir.extract(u2[1], dc.P, dc.pkts) if u2[0] == 'ok' else u2
                out2 = ea.impl_pack(u2[1]) if u2[0] == 'ok' else None
                if again != got or out2 != out:
                    st.violate('second round trip differs', 'p = %s.unpack(%r) holds %r and packs to %r; parsing that gives %r which packs to %r | %s' % (
                        dc.P['name'], raw, got, out[1], again, out2[1] if out2 else None, dc.src.replace('\n', '; ')),
                        dc.case(raw=raw, start=start), dc.snippet('p = %s.unpack(%r); q = %s.unpack(p.pack()); print(p, q)' % (dc.P['name'], raw, dc.P['name'])))
        return
    if any(lo < start for lo, hi, _ in ok.consumed):
        st.inc('oos')
        return
    st.inc('accepted')
    owner = {}
    overlap = None
    for lo, hi, path in ok.consumed:
        for i in range(lo, hi):
            if i in owner and overlap is None:
                overlap = (i, owner[i], path)
            owner[i] = path
    out = ea.impl_pack(u[1])
    call = '%s.unpack(%r%s).pack()' % (dc.P['name'], raw, (', %d' % start) if start else '')
    srcline = dc.src.replace('\n', '; ')
    st.add('states', (tuple(dc.spec.get('names', ())), dc.spec.get('wrapper'), repr(dc.spec.get('opts')), start, overlap is not None, out[0], len(owner), ok.high - start))
    st.add('outcomes', (overlap is not None, out[0]))
    if overlap is not None:
        st.inc('overlapping')
        if out[0] != 'err':
            st.violate('overlap-not-rejected', '%s -> %r although byte %d was consumed by both %r and %r | %s' % (
                call, out[1], overlap[0], overlap[1], overlap[2], srcline), dc.case(raw=raw, start=start), dc.snippet('print(%s)' % call))
        return
    if out[0] != 'ok':
        e = out[1]
        msg = getattr(e, 'original_error_message', repr(e))
        st.violate('pack-raises: %s' % ('collision' if 'ollision' in str(msg) else type(e).__name__),
                   '%s raised %s although no two fields consumed the same byte | %s' % (call, str(msg)[:120], srcline),
                   dc.case(raw=raw, start=start), dc.snippet('print(%s)' % call))
        return
    b = out[1]
    if len(b) > ok.high - start:
        st.violate('too-long', '%s -> %r (%d bytes) but the parse traversed only %d bytes | %s' % (call, b, len(b), ok.high - start, srcline),
                   dc.case(raw=raw, start=start), dc.snippet('print(%s)' % call))
        return
    for i in sorted(owner):
        j = i - start
        if j >= len(b) or b[j] != raw[i]:
            st.violate('byte-differs: %s' % owner_kind(dc, owner[i]),
                       '%s -> %r: position %d should hold %r (consumed by %r) | %s' % (call, b, j, raw[i:i + 1], owner[i], srcline),
                       dc.case(raw=raw, start=start), dc.snippet('print(%s)' % call))
            return
    for j in range(len(b)):
        if (j + start) not in owner and b[j] != 0x2e:
            st.violate('fill-differs', '%s -> %r: skipped position %d should hold the fill byte | %s' % (call, b, j, srcline),
                       dc.case(raw=raw, start=start), dc.snippet('print(%s)' % call))
            return


def check_decl(dc, st, tier, only=None):
    if only is not None:
        s = only.get('start', 0)
        check_one(dc, st, only['raw'], ea.ref_parse(dc.P, only['raw'], s), s)
        return
    budget = ea.budget_for(dc, tier)
    offsets = [0]
    if 'abs' not in dc.feats:
        offsets = [0, 1] if tier == 'quick' else [0, 1, 2]
    for start in offsets:
        for raw, r in ea.inputs_for(dc, budget if start == 0 else budget // 4, ext=None if start == 0 else False):
            if start:
                raw = PREFIX[:start] + raw
                r = ea.ref_parse(dc.P, raw, start)
            check_one(dc, st, raw, r, start)


def run(tier):
    st = ea.run(MODULE, tier)
    from mc import ea_o
    so = ea_o.run(MODULE, tier)         # every component alone once more under python -O (assert statements stripped)
    st.merge(so)
    st.notes.extend(so.notes)
    LADDER_NOTE = '; plus the shared size and structure ladders (mc/alphabet.py boundary_specs / structure_specs): lengths and counts 5, 8, 9, 16, 17, 32, 33, 64, 65, 128, 129, 255, 256, 257, 1024, 1025, 4096, 4097, 8192, 8193 behind one-, two- and three-byte length fields with their exact encodings (and the same cut short), constant counts and sizes 15..257 first in a packet, far positions (holes of 255..8192 bytes), chains of 4..8 references, lists of lists of lists, nine-byte integers, bit runs of 40/72/80 bits, declarations of 24 components and runs of 17..40 fixed fields, holders whose options differ from the held class, the nested class alone on the field-by-field loop'
    cov = ea.coverage(st, 'every declaration of the alphabet except the by-design exclusions (singles x 3 wrappers, pairs, %s, class options '
                          'endianness/align/search_buffer_length, generic code); all inputs up to the bound, start offsets 0..%d (0 only when positioning '
                          'is absolute); pack(unpack(raw)) vs raw at every consumed byte, fill elsewhere, overlap => PacketError; '
                          'states = distinct (declaration, offset, overlap?, pack outcome, consumed bytes, traversed length)' %
                      (('triples over the reduced alphabet', 2) if tier == 'thorough' else ('pairs over the reduced alphabet', 1)),
                      {'overlapping_cases': st.n.get('overlapping', 0), 'disagreements_left_to_C06_C08': st.n.get('disagree', 0)})
    cov['rule'] += LADDER_NOTE
    cov['rule'] += '; every component alone once more in child interpreters started with -O'
    cov['programs_under_python_O'] = st.n.get('programs_under_O', 0)
    return {'stats': st, 'coverage': cov,
            'assumptions': ['consumed intervals come from the reference interpreter; cases on which unpack and the reference disagree are counted, not judged, here']}


def replay(case):
    if case.get('optimized') and sys.flags.optimize < 1:
        from mc import ea_o
        return ea_o.replay(MODULE, case)
    return ea.replay_decl(sys.modules[__name__], case)
