"""C19  Default-constructed packets hold the declared defaults.

E-A: for every declaration (module-level and function-local classes, user defaults, nested prototypes)
K() must hold the reference defaults with fresh (unshared) lists and nested packets, K(**kw) for EVERY
subset of the top-level fields overrides exactly those, and pack() is the reference encoding.
"""
import itertools
import sys

from mc import common, ea, alphabet, ir, refsem, mk

MODULE = 'mc.props.c19'

EMBED_SRC = mk.class_src('Point', ['x = Int(1)', 'y = Int(1)']) + '\n' + mk.class_src('Point3D', ['point_2d = Ref(Point(x=1, y=2), embed=True)', 'z = Int(1)'])


def decl_specs(tier):
    specs = []
    for names, w in alphabet.declarations(tier):
        specs.append({'names': list(names), 'wrapper': w})
        if len(names) == 1 and w == 'a':
            specs.append({'names': list(names), 'wrapper': w, 'local': True})
            specs.append({'names': list(names), 'wrapper': 'b', 'local': True})
    for c in ('r2i', 'r2v', 'rbv', 'sd', 'srd', 'ord', 'rsd', 'od', 'rbag', 'i2d', 'd1q', 'b44d', 'r1', 'rs', 'sdn', 'ddn', 'ddx'):
        for d in ('r2i', 'sd', 'rvec', 'd2', 'b44'):
            specs.append({'names': [c, d], 'wrapper': 'a', 'local': True})
            specs.append({'names': [c, d], 'wrapper': 'a', 'opts': {'generate_for_pack': False, 'generate_for_unpack': False}})
    for c in ('sdn', 'ddn', 'ddx'):
        for opts in ({'generate_for_pack': False}, {'generate_for_unpack': False}, {'vectorize': False}):
            specs.append({'names': [c], 'wrapper': 'a', 'opts': opts})
            specs.append({'names': ['i1', c], 'wrapper': 'b', 'opts': opts})
    specs.append({'embed': True, 'names': []})
    # size ladder: the NUL default of a constant-size byte string of every size up to 130 and of selected larger ones
    for n in list(range(3, 131)) + [255, 256, 257, 300, 512, 1000, 4096, 4097, 8192, 8193, 65535, 65536]:
        for o in ({}, {'generate_for_pack': False, 'generate_for_unpack': False}):
            if o and n not in (4, 16, 17, 64, 65, 256, 257, 300, 4097):
                continue
            specs.append({'P': ir.PKT('K', [('a', ir.I(1)), ('d', ir.D(ir.C(n))), ('z', ir.I(2, default=7))], **o), 'tag': 'Data(%d)' % n})
    for proto in PROTOS:
        for place in PLACEMENTS:
            for opts in ({}, {'generate_for_pack': False, 'generate_for_unpack': False}):
                specs.append({'special': 'check_protos', 'proto': proto, 'place': place, 'opts': opts, 'names': []})
    for c in ('i1', 'i3', 'dn', 'm0', 'b35', 'sn', 'su', 'sr', 'o1', 'r1', 'rs', 'sdn'):
        specs.append({'names': [c], 'wrapper': 'd'})
    return specs


def mutable_ids(obj, acc=None):
    """ids of the lists / packets reachable from a packet (not the packet itself)"""
    from bisturi.packet import Packet
    acc = acc if acc is not None else {}
    for name, f, _, _ in obj.get_fields():
        try:
            v = getattr(obj, name)
        except AttributeError:
            continue
        walk(v, acc, name)
    return acc


def walk(v, acc, where):
    from bisturi.packet import Packet
    if isinstance(v, list):
        acc[id(v)] = where
        for x in v:
            walk(x, acc, where)
    elif isinstance(v, Packet):
        acc[id(v)] = where
        mutable_ids(v, acc)


def check_kw(dc, st, kw_pv, dflt, label):
    """kw_pv: dict field -> plain value to pass; everything else must keep its default"""
    st.inc('evaluations')
    srcline = dc.src.replace('\n', '; ')
    pkts = dc.pkts

    def conv(v):
        if isinstance(v, ir.PV):
            return ir.construct(dc.mod, pkts[v.name], v, 'kw')
        if isinstance(v, list):
            return [conv(x) for x in v]
        return v
    kw = {k: conv(v) for k, v in kw_pv.items()}
    call = '%s(%s)' % (dc.P['name'], ', '.join('%s=%s' % (k, ir.value_src(v)) for k, v in kw_pv.items()))
    case = dc.case(kw={k: ir.val_tojson(v) for k, v in kw_pv.items()})
    try:
        p = dc.K(**kw)
    except Exception as e:
        st.violate('constructor-raises', '%s raised %r | %s' % (call, e, srcline), case, dc.snippet('print(%s)' % call))
        return None
    exp = ir.PV(dc.P['name'], dict(dflt.vals))
    exp.vals.update(kw_pv)
    for fname, node in dc.P['fields']:
        d = node.get('desc')
        if d and d['k'] == 'autolength' and fname not in kw_pv:
            exp.vals[fname] = len(exp.vals[d['of']])        # not assigned: reads as the computed value
    got = ir.extract(p, dc.P, pkts)
    st.add('states', (tuple(dc.spec.get('names', ())), dc.spec.get('wrapper'), dc.spec.get('local', False), tuple(sorted(kw_pv))))
    if got != exp:
        kind, fname = ea.first_diff(pkts, dc.P, exp, got)
        st.violate('%s: %s' % (label, kind), '%s holds %r, expected %r | %s' % (call, got, exp, srcline), case, dc.snippet('print(%s)' % call))
        return None
    try:
        enc, _ = refsem.encode(dc.P, exp, pkts)
    except (refsem.Fail, refsem.OutOfScope):
        st.inc('not_encodable')
        return p
    out = ea.impl_pack(p)
    st.add('outcomes', (out[0], len(enc)))
    if out[0] != 'ok' or out[1] != enc:
        st.violate('pack-of-defaults', '%s.pack() -> %r, expected %r | %s' % (call, out[1], enc, srcline), case, dc.snippet('print(%s.pack())' % call))
    return p


def check_embed(st):
    st.inc('evaluations')
    with mk.World() as w:
        m = w.module(EMBED_SRC)
        p = m.Point3D(x=7)
        got = (p.x, p.y, p.z)
        if got != (7, 2, 0):
            st.violate('embed-defaults', 'Point3D(x=7) holds (x, y, z) = %r, the prototype Point(x=1, y=2) says (7, 2, 0)' % (got,),
                       {'spec': {'embed': True, 'names': []}}, mk.HEADER + EMBED_SRC + 'p = Point3D(x=7); print(p.x, p.y, p.z)')


PROTO_BASE = (mk.class_src('Chunk', ["length = Int(1).describe(AutoLength('payload'))", 'payload = Data(length)']) + '\n' +
              mk.class_src('Flags', ['on = Int(1, default=1)', 'lvl = Int(2, signed=True)']) + '\n' +
              mk.class_src('Mid', ['h = Int(1)', 'c = Ref(Chunk)', 'f = Ref(Flags)']) + '\n')
# prototype expressions: several compare EQUAL to a plain instance of their class without being the same state
PROTOS = ['Chunk()', 'Chunk(length=0)', "Chunk(payload=b'')", "Chunk(length=0, payload=b'')", "Chunk(length=2, payload=b'ab')", "Chunk(payload=b'ab')",
          'Chunk(length=5)', 'Flags()', 'Flags(on=True)', 'Flags(on=1)', 'Flags(lvl=False)', 'Flags(on=0, lvl=-1)',
          'Mid()', 'Mid(c=Chunk(length=0))', 'Mid(f=Flags(on=True))', "Mid(h=1, c=Chunk(length=2, payload=b'ab'))"]
PLACEMENTS = {
    'ref': (['pre = Int(1)', 's = Ref(%s)'], 'p.s', lambda plain, enc: b'\x00' + enc),
    'shorthand': (['pre = Int(1)', 's = %s'], 'p.s', lambda plain, enc: b'\x00' + enc),      # a packet instance written as the field itself
    'ref-last-of-two': (['s0 = Ref(%s)', 's = Ref(%s)'], 'p.s', lambda plain, enc: plain + enc),
    'list-default': (['n = Int(1)', 's = Ref(%s).repeated(n, default=[%s])'], 'p.s[0]', lambda plain, enc: b'\x00' + enc),
    'optional-default': (['t = Int(1)', 's = Ref(%s).when(t, default=%s)'], 'p.s', lambda plain, enc: b'\x00' + enc),
}
FOLLOW = {
    'Chunk': ['', "t.payload = b'abc'", 'del t.length', 't.length = 1', "t.payload = b'abc'; del t.length"],
    'Flags': ['', 't.lvl = 3'],
    'Mid': ['', "t.c.payload = b'abc'", 'del t.c.length', 't.f.lvl = 3'],
}


def observe_proto(t):
    """every leaf value with its type, and the encoding"""
    from bisturi.packet import Packet
    out = []

    def walk(v, where):
        for name, f, _, _ in v.get_fields():
            if getattr(f, 'holds_no_value', False):
                continue
            name = name[len('_described_'):] if name.startswith('_described_') else name
            x = getattr(v, name)
            if isinstance(x, Packet):
                walk(x, where + name + '.')
            else:
                out.append((where + name, type(x).__name__, x))
    walk(t, '')
    try:
        enc = t.pack()
    except Exception as e:
        enc = ('raised', type(e).__name__)
    return out, enc


def check_protos(st, spec):
    """differential: the packet found in a default-constructed outer packet is a COPY of the declared prototype - it holds the
    same values (same types) and keeps behaving like the prototype expression evaluated afresh under follow-up assignments"""
    proto, place, opts = spec['proto'], spec['place'], spec.get('opts') or {}
    lines, access, wrap = PLACEMENTS[place]
    src = PROTO_BASE
    if opts:
        src = src.replace('(Packet):\n', '(Packet):\n    __bisturi__ = %r\n' % (opts,))
    src += mk.class_src('W', [l.replace('%s', proto) for l in lines], opts or None)
    cls = proto.split('(')[0]
    with mk.World() as w:
        try:
            m = w.module(src)
        except Exception as e:
            st.violate('definition-fails', 'defining %s raised %r' % (src.replace('\n', '; '), e), {'spec': spec})
            return
        st.inc('programs')
        for follow in FOLLOW[cls]:
            st.inc('evaluations')
            ns = dict(m.__dict__)
            try:
                exec('p = W()\nt = %s\n%s' % (access, follow), ns)
                got = observe_proto(ns['t'])
                whole = ns['p'].pack()
            except Exception as e:
                got, whole = ('raised', repr(e)), None
            ns2 = dict(m.__dict__)
            exec('t = %s\n%s' % (proto, follow), ns2)
            exp = observe_proto(ns2['t'])
            ns3 = dict(m.__dict__)
            exec('t = %s' % proto, ns3)
            expwhole = wrap(ns3['t'].pack(), exp[1]) if isinstance(exp[1], bytes) else None
            st.add('states', (proto, place, follow, repr(opts)))
            st.add('outcomes', (repr(exp[0])[:80],))
            if got != exp or (expwhole is not None and whole != expwhole):
                st.violate('default is not a copy of the prototype: %s' % cls,
                           'W().%s after %r observes %r / W().pack() = %r; the prototype %s treated the same way observes %r (W: %r) | %s' % (
                               access[2:], follow, got, whole, proto, exp, expwhole, src.replace('\n', '; ')),
                           {'spec': spec}, mk.HEADER + src + 'p = W()\nt = %s\n%s\nprint(t, p.pack())' % (access, follow))
                return


def check_decl(dc, st, tier, only=None):
    dflt = refsem.defaults(dc.P)
    if only is not None:
        check_kw(dc, st, {k: ir.val_fromjson(v) for k, v in only.get('kw', {}).items()}, dflt, 'replay')
        return
    p1 = check_kw(dc, st, {}, dflt, 'defaults')
    p2 = check_kw(dc, st, {}, dflt, 'defaults')
    if p1 is not None and p2 is not None:
        shared = set(mutable_ids(p1)) & set(mutable_ids(p2))
        if shared:
            where = mutable_ids(p1)[sorted(shared)[0]]
            st.violate('shared-default', 'two default-constructed %s share the mutable object in field %r | %s' % (dc.P['name'], where, dc.src.replace('\n', '; ')),
                       dc.case(kw={}), dc.snippet('a, b = %s(), %s()\nprint(a.%s is b.%s)' % (dc.P['name'], dc.P['name'], where, where)))
    # mutate everything mutable that hangs off the first instance in place: a later K() must not see it
    if p1 is not None:
        from bisturi.packet import Packet

        def poke(v):
            if isinstance(v, list):
                for x in v:
                    poke(x)
                v.append(v[0] if v else 0)
            elif isinstance(v, Packet):
                for name, f, _, _ in v.get_fields():
                    if getattr(f, 'holds_no_value', False):
                        continue
                    try:
                        x = getattr(v, name)
                    except AttributeError:
                        continue
                    if isinstance(x, int) and not isinstance(x, bool):
                        setattr(v, name, x + 1)
                    elif isinstance(x, bytes):
                        setattr(v, name, x + b'!')
                    else:
                        poke(x)
        for name, f, _, _ in p1.get_fields():
            if getattr(f, 'holds_no_value', False):
                continue
            try:
                x = getattr(p1, name)
            except AttributeError:
                continue
            if isinstance(x, (list, Packet)):
                poke(x)
        check_kw(dc, st, {}, dflt, 'defaults after another instance was mutated in place')
    # the class parses a few inputs (accepted and rejected ones): a packet constructed afterwards still holds and packs the defaults
    # (where the reference has no encoding - a regexp delimiter that is not kept - the bytes packed BEFORE anything was parsed stand in)
    try:
        before = ea.impl_pack(dc.K())
    except Exception:
        before = None
    parsed = 0
    for raw, r in ea.inputs_for(dc, 120, ext=False):
        if len(raw) < 2:
            continue
        try:
            dc.K.unpack(raw, silent=True)
        except Exception:
            pass
        parsed += 1
        if parsed >= 40:
            break
    check_kw(dc, st, {}, dflt, 'defaults after the class parsed inputs')
    try:
        after = ea.impl_pack(dc.K())
    except Exception:
        after = None
    if before is not None and after is not None and before[0] == 'ok' and after != before:
        st.violate('pack-of-defaults changes after parsing', '%s().pack() was %r, after the class parsed %d inputs it is %r | %s' % (
            dc.P['name'], before[1], parsed, after[1], dc.src.replace('\n', '; ')), dc.case(kw={}),
            dc.snippet('a = %s().pack()\n%s.unpack(b"\\x00X", silent=True)\nprint(a, %s().pack())' % (dc.P['name'], dc.P['name'], dc.P['name'])))
    # keyword values: from the reference's parses
    vals = []
    for raw, r in ea.inputs_for(dc, 300, ext=False):
        if r[0] == 'ok' and r[1].pv != dflt and all(r[1].pv.vals != v for v in vals):
            vals.append(r[1].pv.vals)
            if len(vals) >= 2:
                break
    names = ir.value_fields(dc.P)
    # the falsy value of each kind as a keyword (0, b'', [], an explicit None): it must override like any other
    falsy = {}
    for fname, node in dc.P['fields']:
        k = node['k']
        if k in ('int', 'bits'):
            falsy[fname] = 0
        elif k == 'data' and not (node['mode'] == 'size' and node['sp'] == 'const'):
            falsy[fname] = b''
        elif k == 'seq':
            falsy[fname] = []
        elif k == 'opt':
            falsy[fname] = None
    # a described field given by keyword is PINNED to that value, whatever the computation would yield
    nodes = dict(dc.P['fields'])
    for fname, node in dc.P['fields']:
        d = node.get('desc')
        if d and d['k'] == 'autolength':
            tracked = [7, 8] if nodes[d['of']]['k'] == 'seq' else b'ab'
            check_kw(dc, st, {fname: 5}, dflt, 'described keyword')
            check_kw(dc, st, {fname: 5, d['of']: tracked}, dflt, 'described keyword')
            check_kw(dc, st, {fname: 0, d['of']: tracked}, dflt, 'described keyword')
    for fname, v in falsy.items():
        check_kw(dc, st, {fname: v}, dflt, 'falsy keyword')
    if len(falsy) > 1:
        check_kw(dc, st, dict(falsy), dflt, 'falsy keyword')
    for v in vals:
        for k in range(1, len(names) + 1):
            for sub in itertools.combinations(names, k):
                check_kw(dc, st, {n: v[n] for n in sub}, dflt, 'keywords')


def _shard_embed(st):
    check_embed(st)


def run(tier):
    st = ea.run(MODULE, tier)
    cov = ea.coverage(st, 'every declaration of the alphabet, module-level and function-local (pickle vs deepcopy prototypes), user defaults on every kind; '
                          'K() twice (values + no shared mutable object), K(**kw) for every subset of top-level fields with two value sets taken from the '
                          'reference parses; values vs reference defaults, pack vs reference encoding; one embed=True declaration (documented upstream quirk); '
                          + '%d prototype expressions x %d placements: the default is a copy that behaves like the prototype under follow-up assignments; ' % (len(PROTOS), len(PLACEMENTS)) +
                          'states = distinct (declaration, placement, overridden subset)')
    return {'stats': st, 'coverage': cov, 'assumptions': ['reference defaults in mc/refsem.py']}


def replay(case):
    from mc.common import Stats
    if case['spec'].get('special'):
        st = Stats()
        check_protos(st, case['spec'])
        return st.violations
    if case['spec'].get('embed'):
        st = Stats()
        check_embed(st)
        return st.violations
    return ea.replay_decl(sys.modules[__name__], case)
