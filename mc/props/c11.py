"""C11  The output buffer never loses, overwrites or misplaces bytes.

E-B history explorer: ALL histories up to a depth bound over a 36-operation alphabet are executed on a
fresh real bisturi.fragments.Fragments and compared, after every operation, with a sparse-array
reference model (dict position->byte, extent).
"""
import itertools

from mc import common
from mc.common import Stats

CHUNKS = [b'', b'A', b'BC', b'DEF']
POSITIONS = list(range(7))


def alphabet():
    ops = []
    for c in CHUNKS[1:] + CHUNKS[:1]:          # simplest first: non-empty chunks, then the empty one
        for p in POSITIONS:
            ops.append(('insert', p, c))
    for c in CHUNKS:
        ops.append(('append', c))
    for cs in ([b'A', b'BC'], [b'', b'A'], [b'DEF', b''], [b'BC', b'DEF']):
        ops.append(('extend', cs))
    return ops


class Ref:
    """the boring model: a sparse byte array"""

    def __init__(self):
        self.bytes = {}
        self.extent = 0

    def occupied(self, p, n):
        return any((p + i) in self.bytes for i in range(n))

    def store(self, p, c):
        for i, b in enumerate(c):
            self.bytes[p + i] = b
        self.extent = max(self.extent, p + len(c))

    def tobytes(self, fill=ord('.')):
        return bytes(self.bytes.get(i, fill) for i in range(self.extent))

    def canon(self):
        return (tuple(sorted(self.bytes.items())), self.extent)


def apply_one(frag, ref, p, c, errs, ctx):
    """one primitive insert of chunk c at p on both; returns False if the real object raised"""
    before = frag.tobytes()
    try:
        frag.insert(p, c)
        raised = None
    except Exception as e:       # the class of the exception is not part of the statement
        raised = e
    if c:
        occ = ref.occupied(p, len(c))
        if raised is not None and not occ:
            errs.append(('spurious-collision', 'insert(%d,%r) raised %r although no byte of [%d,%d) is occupied'
                         % (p, c, str(raised)[:60], p, p + len(c))))
            return False
        if raised is None and occ:
            errs.append(('missed-collision', 'insert(%d,%r) returned although a byte of [%d,%d) is occupied' % (p, c, p, p + len(c))))
            return True
        if raised is None:
            ref.store(p, c)
            if frag.current_offset != p + len(c):
                errs.append(('cursor', 'after insert(%d,%r) current_offset=%r, expected %d' % (p, c, frag.current_offset, p + len(c))))
        else:
            if frag.tobytes() != before:
                errs.append(('raise-changed-buffer', 'insert(%d,%r) raised and changed the buffer %r -> %r' % (p, c, before, frag.tobytes())))
    else:
        # empty chunk: the statement only says it extends the extent; raising is tolerated
        if raised is None:
            ref.extent = max(ref.extent, p)
        else:
            if frag.tobytes() != before:
                errs.append(('raise-changed-buffer', 'insert(%d,b"") raised and changed the buffer' % p))
    return raised is None


def run_history(hist, Fragments, fill=b'.'):
    """returns (list of (sig, what), canonical state, transitions)"""
    frag = Fragments() if fill == b'.' else Fragments(fill=fill)
    ref = Ref()
    errs = []
    trans = 0

    ctx = None

    for op in hist:
        if op[0] == 'insert':
            apply_one(frag, ref, op[1], op[2], errs, ctx)
            trans += 1
        elif op[0] == 'append':
            apply_one(frag, ref, frag.current_offset, op[1], errs, ctx)
            trans += 1
        else:
            # extend = append each; stop at the first raise like the real loop does
            try_ok = True
            for c in op[1]:
                if not try_ok:
                    break
                try_ok = apply_one(frag, ref, frag.current_offset, c, errs, ctx)
                trans += 1
        if errs:
            break
        out = frag.tobytes()
        exp = ref.tobytes(fill[0])
        if out != exp:
            errs.append(('tobytes', 'tobytes()=%r expected %r (bytes at their positions, "." in holes, length=extent %d)' % (out, exp, ref.extent)))
            break
        if frag.tobytes() != out:
            errs.append(('tobytes-impure', 'second tobytes() differs'))
            break
    if not errs and any(op[0] != 'insert' for op in hist):
        # the history above was carried out with insert(current_offset, ...) standing in for append / extend; the same history through
        # the REAL append() and extend() - extend once with a list and once with a one-shot generator - must end in the same buffer
        for style in ('list', 'generator'):
            f2 = Fragments() if fill == b'.' else Fragments(fill=fill)
            refused = False
            for op in hist:
                try:
                    if op[0] == 'insert':
                        f2.insert(op[1], op[2])
                    elif op[0] == 'append':
                        f2.append(op[1])
                    else:
                        f2.extend(list(op[1]) if style == 'list' else (c for c in op[1]))
                except Exception:
                    # what an extend() that meets a collision half-way leaves behind is not part of the statement (it may store the
                    # chunks before the colliding one or none): such histories are judged through their inserts only
                    refused = refused or op[0] == 'extend'
                trans += 1
            if refused:
                continue
            try:
                out2 = (f2.tobytes(), f2.current_offset)
            except Exception as e:
                out2 = repr(e)
            if out2 != (frag.tobytes(), frag.current_offset):
                errs.append(('append/extend differ from insert at the cursor', 'through append() / extend(%s) the history ends as %r, through insert(current_offset, ...) as %r' % (
                    'a list' if style == 'list' else 'a generator', out2, (frag.tobytes(), frag.current_offset))))
                break
    return errs, (ref.canon(), frag.current_offset), trans


def snippet(hist):
    lines = ['from bisturi.fragments import Fragments', 'f = Fragments()']
    for op in hist:
        if op[0] == 'insert':
            lines.append('f.insert(%d, %r)' % (op[1], op[2]))
        elif op[0] == 'append':
            lines.append('f.append(%r)' % (op[1],))
        else:
            lines.append('f.extend(%r)' % (op[1],))
    lines.append('print(f.tobytes(), f.current_offset)')
    return '\n'.join(lines)


def small_alphabet():
    ops = []
    for c in (b'A', b'BC', b''):
        for p in range(5):
            ops.append(('insert', p, c))
    for c in (b'A', b'BC', b''):
        ops.append(('append', c))
    ops.append(('extend', [b'A', b'']))
    ops.append(('extend', [b'', b'BC']))
    return ops


def unit_alphabet():
    """many small fragments: one-byte chunks at 0..5 (deep histories build up to 6 separate or adjacent fragments)"""
    return [('insert', p, b'A') for p in range(6)] + [('insert', 1, b'BC'), ('insert', 3, b'')]


def wide_alphabet():
    """longer chunks further out: lengths 1, 4, 5, 8 at 0, 4, 8, 12, 16 and two appends"""
    ops = []
    for p in (0, 4, 8, 12, 16):
        for c in (b'A', b'BCDE', b'FGHIJ', b'KLMNOPQR'):
            ops.append(('insert', p, c))
    ops.append(('append', b'ST'))
    ops.append(('append', b''))
    return ops


def prefixed_histories(tier):
    """scale: N forward appends first (N up to 65: thresholds at 8, 16, 32, 64 entries), then every history of length <= 2 (thorough 3)
    over operations placed around the end of what was appended and at the very start"""
    ladder = (7, 8, 15, 16, 17, 31, 32, 33, 64, 65)
    depth = 2 if tier == 'quick' else 3
    for N in ladder:
        ops = []
        T = sum(1 if i % 3 else 2 for i in range(N))         # bytes appended by the prefix
        for p in (0, 1, T - 1, T, T + 1, T + 4):
            for c in (b'', b'A', b'BC'):
                ops.append(('insert', p, c))
        ops += [('append', b'xy'), ('append', b''), ('extend', [b'', b'Q'])]
        prefix = tuple(('append', b'A') if i % 3 else ('append', b'BC') for i in range(N))
        for d in range(1, depth + 1):
            for hist in itertools.product(ops, repeat=d):
                yield prefix + hist


def _shard_prefixed(shard, nshards, payload):
    from bisturi.fragments import Fragments
    st = Stats()
    for idx, hist in enumerate(prefixed_histories(payload['tier'])):
        if idx % nshards != shard:
            continue
        errs, canon, trans = run_history(hist, Fragments)
        st.inc('histories')
        st.inc('transitions', trans)
        st.add('states', common.digest(canon))
        for sig, what in errs:
            st.violate(sig + ' (after many appends)', 'history %s: %s' % (common.show([tuple(o) for o in hist], 400), what),
                       {'history': [list(o) for o in hist]}, snippet(hist))
    return st


ALPHABETS = {'full': alphabet, 'small': small_alphabet, 'unit': unit_alphabet, 'wide': wide_alphabet}


def _shard(shard, nshards, payload):
    from bisturi.fragments import Fragments
    depth = payload['depth']
    ops = ALPHABETS[payload.get('alphabet') or ('small' if payload.get('small') else 'full')]()
    st = Stats()
    idx = 0
    # iterative deepening so that the first violation per signature is the shortest
    for d in range(payload.get('mindepth', 1), depth + 1):
        for hist in itertools.product(ops, repeat=d):
            idx += 1
            if idx % nshards != shard:
                continue
            errs, canon, trans = run_history(hist, Fragments)
            if not errs and d >= 2:
                # the fill byte is a constructor parameter: buffers with different fill bytes live side by side
                for fill in (b'\x00', b'#', b'.'):
                    e2, _, t2 = run_history(hist, Fragments, fill)
                    trans += t2
                    if e2:
                        errs = [(sg + ' (fill=%r after other fill bytes were used)' % fill, w) for sg, w in e2]
                        break
            st.inc('histories')
            st.inc('transitions', trans)
            st.add('states', common.digest(canon))
            st.add('outcomes', (bool(errs), len(canon[0][0]), canon[0][1]))
            if d == depth and len(st.samples) < 3 and idx % 977 == common.SEED % 977:
                st.sample({'history': [list(o) for o in hist], 'state': repr(canon)})
            for sig, what in errs:
                st.violate(sig, 'history %s: %s' % (common.show([tuple(o) for o in hist], 300), what),
                           {'history': [list(o) for o in hist]}, snippet(hist))
    return st


def run(tier):
    depth = 3 if tier == 'quick' else 4
    st = common.merge_all(common.run_sharded(_shard, {'depth': depth}))
    # many fragments (depth 6 quick / 7 thorough over 8 operations) and long chunks at far positions (depth 3 / 4 over 22 operations)
    st.merge(common.merge_all(common.run_sharded(_shard, {'depth': 6 if tier == 'quick' else 7, 'mindepth': 4, 'alphabet': 'unit'})))
    st.merge(common.merge_all(common.run_sharded(_shard, {'depth': 3 if tier == 'quick' else 4, 'mindepth': 2, 'alphabet': 'wide'})))
    st.merge(common.merge_all(common.run_sharded(_shard_prefixed, {'tier': tier})))
    from mc import ea_o
    so = ea_o.run_shard('mc.props.c11', '_shard', {'depth': 2})          # all histories of length <= 2 once more under python -O
    st.merge(so)
    st.notes.extend(so.notes)
    deep = None
    if tier == 'thorough':
        # one level deeper over a reduced alphabet (positions 0..4, chunks of length 0..2): 20 operations, depth 5
        deep = common.merge_all(common.run_sharded(_shard, {'depth': 5, 'mindepth': 5, 'small': True}))
        st.merge(deep)
    if not st.samples:
        st.sample({'history': [['insert', 2, b'BC'], ['append', b'A']], 'note': 'first histories of the enumeration'})
    nops = len(alphabet())
    cov = {
        'states': st.count('states'),
        'transitions': st.n.get('transitions', 0),
        'traces_validated_against_impl': st.n.get('histories', 0),
        'evaluations': st.n.get('histories', 0),
        'distinct_nontrivial': st.count('states'),
        'rule': 'all operation histories of length 1..%d over %d operations (insert at 0..6 of 4 chunks incl. the empty one, append x4, '
                'extend x4; those of length <=2 once more in child interpreters started with -O), plus all histories of length 4..%d over 8 operations (one-byte chunks at 0..5: many fragments) and of length 2..%d over 22 operations '
                '(chunks of length 1/4/5/8 at 0/4/8/12/16), plus every history of length <=%d placed after 7..65 forward appends, each executed on a fresh real Fragments; distinct = canonical (sparse map, extent, cursor)' % (
                    depth, nops, 6 if tier == 'quick' else 7, 3 if tier == 'quick' else 4, 2 if tier == 'quick' else 3),
        'exhaustive': True,
        'bounds': {'depth': depth, 'operations': nops, 'positions': '0..6', 'chunks': [c.decode() for c in CHUNKS],
                   'extra': 'depth 5 over 20 operations (positions 0..4, chunks of length 0..2)' if deep is not None else None},
        'distinct_outcomes': st.count('outcomes'),
        'samples': st.samples,
        'explanation': 'every explored history IS an execution of the implementation; the model is a dict position->byte',
    }
    return {'stats': st, 'coverage': cov, 'harness_errors': [n for n in st.notes if n.startswith('HARNESS')],
            'assumptions': ['positions >= 0', 'fill byte is the default "."',
                            'for an EMPTY chunk the statement only fixes the extent: raising is tolerated, the cursor is not compared']}


def replay(case):
    from bisturi.fragments import Fragments
    hist = [tuple(o) for o in case['history']]
    errs, _, _ = run_history(hist, Fragments)
    for fill in (b'\x00', b'#', b'.'):
        if not errs:
            errs, _, _ = run_history(hist, Fragments, fill)
    return [{'sig': s, 'what': w} for s, w in errs]
