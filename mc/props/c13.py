"""C13  Packets are independent and pack/unpack are observationally pure.

Two explorers over real packets:
  * E-B sequential: ALL histories up to a depth bound of construct / unpack / set scalar / append to list /
    set nested field / pack over up to 3 live packets, for one scenario per shared-state shortcut visible in
    the code. After every operation every OTHER live packet must read and pack as before, pack() must be
    repeatable and pure, no list / nested packet may be reachable from two packets, and a freshly
    constructed packet must still hold the original defaults.
  * E-C(i) threads: all schedules up to a preemption bound of 2-3 threads parsing/serializing DISTINCT
    packets of one class (mc/sched.py), each thread's observation must equal its single-threaded one.
"""
import itertools
import re

from mc import common, mk
from mc.common import Stats

SUB = mk.class_src('Sub', ['x = Int(1)', 'y = Data(x)'])
PT = mk.class_src('Pt', ['x = Int(1)', 'y = Int(1, default=2)'])
OFF = {'generate_for_pack': False, 'generate_for_unpack': False}

# name -> (module source builder(opts), class names, unpack inputs per class, constructor keyword variants)
SCENARIOS = {}


def scen(name, build, inputs, kws, local=False, tags=()):
    SCENARIOS[name] = {'build': build, 'inputs': inputs, 'kws': kws, 'local': local, 'tags': set(tags)}


scen('seq', lambda o: mk.class_src('K', ['n = Int(1)', 'l = Int(1).repeated(n)', 'z = Int(1)'], o),
     [b'\x02\x05\x06\x07', b'\x00\x09', b'\x01\x01\x01'], [{}, {'n': 1, 'l': [4]}])
scen('seq-long', lambda o: mk.class_src('K', ['n = Int(1)', 'l = Int(1).repeated(n)', 'w = Int(2).repeated(n)', 'z = Int(1)'], o),
     [bytes([16]) + bytes(range(16)) + bytes(range(32)) + b'\x09', bytes([17]) + bytes(range(17)) + bytes(range(34)) + b'\x09',
      bytes([33]) + bytes(range(33)) + bytes(range(66)) + b'\x09'], [{}, {'n': 16, 'l': list(range(16)), 'w': list(range(16))}])
scen('seq-data', lambda o: mk.class_src('K', ['n = Int(1)', 'l = Data(until_marker=b"\\x00").repeated(n)'], o),
     [b'\x02ab\x00c\x00', b'\x00', b'\x01\x00'], [{}, {'n': 1, 'l': [b'q']}])
scen('opt', lambda o: mk.class_src('K', ['t = Int(1)', 'o = Int(1).when(t)', 'w = Data(1).when(t == 2)'], o),
     [b'\x01\x05', b'\x00', b'\x02\x07A'], [{}, {'t': 1, 'o': 3}])
scen('bits', lambda o: mk.class_src('K', ['p = Bits(4)', 'q = Bits(4)', 'r = Bits(3)', 's = Bits(13)'], o),
     [b'\x12\x34\x56', b'\xff\xff\xff', b'\x00\x00\x00'], [{}, {'p': 3, 's': 77}])
scen('proto-pickle', lambda o: SUB + mk.class_src('K', ['a = Int(1)', 's = Ref(Sub(x=1, y=b"q"))', 'u = Ref(Sub)'], o),
     [b'\x01\x01A\x00', b'\x02\x00\x02BC', b'\x00\x00\x00'], [{}, {'a': 5}])
scen('proto-deepcopy', lambda o: SUB + mk.class_src('K', ['a = Int(1)', 's = Ref(Sub(x=1, y=b"q"))', 'u = Ref(Sub)'], o),
     [b'\x01\x01A\x00', b'\x02\x00\x02BC', b'\x00\x00\x00'], [{}, {'a': 5}], local=True)
scen('selector-fresh', lambda o: SUB + mk.class_src('K', ['t = Int(1)', 'u = Ref(lambda pkt, **k: {1: Int(2), 2: Data(1), 3: Sub()}[pkt.t], default=0)', 'z = Int(1)'], o),
     [b'\x03\x01A\x09', b'\x03\x00\x08', b'\x01\x00\x07\x06'], [{}, {'t': 1, 'u': 9}])
scen('selector-shared', lambda o: SUB + mk.class_src('K', ['t = Int(1)', 'u = Ref(t.chooses({1: Int(2), 2: Data(1), 3: Sub()}), default=0)', 'z = Int(1)'], o),
     [b'\x03\x01A\x09', b'\x03\x00\x08', b'\x01\x00\x07\x06'], [{}, {'t': 1, 'u': 9}])
scen('selector-two', lambda o: SUB + PT + mk.class_src('K', ['t = Int(1)', 'u = Ref(t.chooses({1: Sub(), 2: Pt(), 3: Int(1)}), default=0)', 'z = Int(1)'], o),
     [b'\x01\x01A\x09', b'\x02\x05\x06\x08', b'\x01\x00\x07'], [{}, {'t': 3, 'u': 9}])
scen('selector-seq', lambda o: SUB + mk.class_src('K', ['t = Int(1)', 'l = Ref(t.chooses({1: Int(2), 3: Sub()}), default=0).repeated(2, default=[])'], o),
     [b'\x03\x01A\x00', b'\x03\x00\x02BC', b'\x01\x00\x07\x00\x06'], [{}])
scen('marker', lambda o: mk.class_src('K', ['d = Data(until_marker=b"\\x00")', 'e = Data(until_marker=b"ab", include_delimiter=True)', 'z = Int(1)'], o),
     [b'xy\x00qab\x01', b'\x00ab\x02', b'k\x00ab\x03'], [{}, {'d': b'v', 'e': b'ab'}], tags=['bytes-field'])
scen('regex-kept', lambda o: mk.class_src('K', ['d = Data(until_marker=re.compile(b"X+"), include_delimiter=True)', 'z = Int(1)'], o),
     [b'abXXX\x01', b'cdX\x02', b'X\x03'], [{}, {'d': b'qX'}], tags=['bytes-field'])
scen('regex-nonkept', lambda o: mk.class_src('K', ['d = Data(until_marker=re.compile(b"X+"))', 'z = Int(1)'], o),
     [b'abXXX\x01', b'cdX\x02', b'XX\x03'], [{}, {'d': b'q'}], tags=['regex-nonkept'])
scen('regex-nonkept-seq', lambda o: mk.class_src('K', ['n = Int(1)', 'l = Data(until_marker=re.compile(b"X+")).repeated(n)', 'o = Data(until_marker=re.compile(b"Y+")).when(n)', 'z = Int(1)'], o),
     [b'\x02abXXXcXqYY\x01', b'\x01dX\x59\x02', b'\x00\x03'], [{}], tags=['regex-nonkept'])
scen('described', lambda o: mk.class_src('K', ["length = Int(1).describe(AutoLength('a'))", 'a = Data(length)', 'z = Int(1)'], o),
     [b'\x02ab\x01', b'\x00\x02', b'\x01q\x03'], [{}, {'a': b'xyz'}, {'length': 1, 'a': b'k'}])
HOPS = '''class Hops(object):
    # a user's own descriptor with the optional after-parsing hook: the parser is one more hop, so the stored count drops by one
    # right after parsing - once; nothing is due before packing
    def __get__(self, instance, owner):
        if instance is None:
            return self
        return getattr(instance, self.real_field_name)

    def __set__(self, instance, val):
        setattr(instance, self.real_field_name, val)

    def sync_after_unpack(self, instance):
        setattr(instance, self.real_field_name, getattr(instance, self.real_field_name) - 1)


'''
scen('user-descriptor', lambda o: HOPS + mk.class_src('K', ['hops = Int(1).describe(Hops())', "length = Int(1).describe(AutoLength('a'))", 'a = Data(length)', 'z = Int(1)'], o),
     [b'\x07\x02ab\x01', b'\x03\x00\x02', b'\x09\x01q\x03'], [{}, {'hops': 5, 'a': b'xyz'}, {'length': 1, 'a': b'k'}])
scen('two-levels', lambda o: SUB + mk.class_src('Mid', ['s = Ref(Sub)', 'm = Int(1)'], o) + mk.class_src('K', ['a = Ref(Sub)', 'b = Ref(Mid)', 'l = Ref(Sub).repeated(1)'], o),
     [b'\x00\x01A\x05\x00', b'\x01B\x00\x06\x01C', b'\x00\x00\x00\x00'], [{}])
scen('default-list', lambda o: PT + mk.class_src('K', ['l = Int(1).repeated(2, default=[7, 8])', 'm = Ref(Pt).repeated(1, default=[Pt(x=4)])', 'z = Int(1)'], o),
     [b'\x01\x02\x03\x04\x05', b'\x00\x00\x00\x00\x00', b'\x09\x09\x01\x01\x01'], [{}, {'z': 3}])
BAG = mk.class_src('Bag', ['num = Int(1)', 'objects = Int(1).repeated(num)'])
BOX = BAG + mk.class_src('Box', ['bags = Ref(Bag).repeated(until=lambda pkt, **k: pkt.bags[-1].num == 0)', 'tag = Ref(Bag)'])
scen('default-nested', lambda o: BOX + mk.class_src('K', ['boxes = Ref(Box).repeated(2, default=[Box(bags=[Bag()]), Box(bags=[Bag(num=1, objects=[5]), Bag()])])', 'z = Int(1)'], o),
     [b'\x00\x00\x01\x07\x00\x00\x09', b'\x01\x02\x00\x00\x00\x00\x08', b'\x00\x00\x00\x00\x01'], [{}, {'z': 3}])
scen('shared-proto', lambda o: PT + 'proto = Pt(x=5)\n' + mk.class_src('K', ['a = Ref(proto)', 'z = Int(1)'], o) + mk.class_src('K2', ['h = Int(1)', 'a = Ref(proto)', 'b = Ref(Pt)'], o),
     [b'\x01\x02\x03', b'\x00\x00\x00', b'\x09\x08\x07'], [{}, {'z': 1}])
PTL = mk.class_src('Ptl', ['x = Int(1)', 'tags = Int(1).repeated(2, default=[7, 8])'])
# the program keeps a handle on the packet it declared as prototype and goes on using (changing) it
scen('origin-local-list', lambda o: PTL + 'proto = Ptl(x=5)\n' + mk.class_src('K', ['z = Int(1)', 'l = Ref(Ptl).repeated(1, default=[proto])', 'a = Ref(proto).when(z)'], o),
     [b'\x01\x02\x03\x04\x05\x06\x07', b'\x00\x00\x00\x00', b'\x00\x09\x08\x07'], [{}, {'z': 1}], local=True, tags=['origin'])
scen('shared-table-two-confs',
     lambda o: 'TABLE = {1: Int(2), 2: Int(4), 3: Data(until_marker=b"ab")}\n' +
     mk.class_src('K', ['w = Int(1)', 'v = Ref(w.chooses(TABLE), default=0)', 'z = Int(1)'], dict(o or {}, endianness='little', search_buffer_length=4)) +
     mk.class_src('K2', ['h = Int(1)', 'w = Int(1)', 'v = Ref(w.chooses(TABLE), default=0)'], o),
     [b'\x01\x01\x02\x09', b'\x02\x01\x02\x03\x04\x09', b'\x03xyab\x09'], [{}, {'w': 1, 'v': 0x0102}])
# same-named classes from ONE class statement (a factory): their generated code is textually identical - the separator lives in the field
# object, not in the code - so the later ones are served by one cached module; each must still use its own fields
scen('factory-siblings',
     lambda o: 'def make(sep, opts=%r):\n    class K(Packet):\n        __bisturi__ = dict(opts or {})\n        d = Data(until_marker=sep)\n        z = Int(1)\n    return K\n\n\n'
               '_first = make(b"|")\nK = make(b"\\n")\nK2 = make(b";")\n' % (o,),
     [b'ab\n;Q', b'\n\x01', b'c;d\n\x02'], [{}, {'d': b'x;y', 'z': 4}])
scen('expr', lambda o: mk.class_src('K', ['p = Int(1)', 'n = Int(1)', 'x = Int(1)', 'd = Data(p + (n + x))', 'l = Int(1).repeated((n * 2) - x, when=(p + n) > x)', 'z = Int(1)'], o),
     [b'\x01\x01\x01ABC\x05\x09', b'\x00\x02\x00XY\x01\x02\x03\x04\x07', b'\x00\x00\x00\x08'], [{}, {'p': 1, 'd': b'q'}])
scen('positioned', lambda o: mk.class_src('K', ['n = Int(1)', 'd = Data(2).at(n)', 'e = Em().aligned(4)'], o),
     [b'\x01AB', b'\x02.CD', b'\x03..EF'], [{}, {'n': 2, 'd': b'xy'}])


# ---------------------------------------------------------------------------------------------
# observation helpers
# ---------------------------------------------------------------------------------------------
def snap(p):
    from bisturi.packet import Packet
    if isinstance(p, Packet):
        out = [type(p).__name__]
        for name, f, _, _ in p.get_fields():
            if getattr(f, 'holds_no_value', False):
                continue
            nm = getattr(f, 'descriptor_name', None) or name
            try:
                out.append((nm, snap(getattr(p, nm))))
            except AttributeError:
                out.append((nm, '<unset>'))
        return tuple(out)
    if isinstance(p, list):
        return [snap(x) for x in p]
    if isinstance(p, bytearray):
        return ('bytearray', bytes(p))          # a copy: the buffer may be changed in place later
    return p


def mutable_ids(p, acc, where=''):
    from bisturi.packet import Packet
    if isinstance(p, Packet):
        for name, f, _, _ in p.get_fields():
            if getattr(f, 'holds_no_value', False):
                continue
            try:
                v = getattr(p, name)
            except AttributeError:
                continue
            if isinstance(v, (list, Packet)):
                acc[id(v)] = where + name
                mutable_ids(v, acc, where + name + '.')
    elif isinstance(p, list):
        for i, x in enumerate(p):
            from bisturi.packet import Packet as P2
            if isinstance(x, (list, P2)):
                acc[id(x)] = '%s[%d]' % (where, i)
                mutable_ids(x, acc, '%s[%d].' % (where, i))


def try_pack(p):
    try:
        return ('ok', p.pack())
    except Exception as e:
        return ('err', type(e).__name__)


# ---------------------------------------------------------------------------------------------
# operations
# ---------------------------------------------------------------------------------------------
def op_alphabet(sc, classes):
    """creation ops + per-slot mutation ops (slot = index of a live packet, 0..2)"""
    ops = []
    for ci, cname in enumerate(classes):
        for ki in range(len(sc['kws']) if ci == 0 else 1):
            ops.append(('new', cname, ki))
        for ii in range(len(sc['inputs'])):
            if ci == 0 or ii == 0:
                ops.append(('unpack', cname, ii))
    for slot in range(3):
        for what in ('scalar', 'bytes', 'append', 'nested', 'deep', 'pack'):
            ops.append((what, slot))
    if 'bytes-field' in sc['tags']:
        # the value of a byte-string field is a MUTABLE buffer the program owns (a bytearray it fills incrementally)
        ops.append(('bytearray', 0))
        ops.append(('bytearray', 1))
    if 'origin' in sc['tags']:
        ops.append(('origin', 0))
    return ops


def first_field(p, pred):
    for name, f, _, _ in p.get_fields():
        if getattr(f, 'holds_no_value', False):
            continue
        nm = getattr(f, 'descriptor_name', None) or name
        if nm.startswith('_'):
            continue
        try:
            v = getattr(p, nm)
        except AttributeError:
            continue
        if pred(v):
            return nm, v
    return None, None


def apply_op(mod, sc, live, op):
    """applies op; returns index of the packet it touched (or None if not applicable)"""
    from bisturi.packet import Packet
    kind = op[0]
    if kind == 'new':
        if len(live) >= 3:
            return None
        cls = getattr(mod, op[1])
        kw = dict(sc['kws'][op[2]]) if op[1] == 'K' else {}
        kw = {k: (list(v) if isinstance(v, list) else v) for k, v in kw.items()}
        live.append(cls(**kw))
        return len(live) - 1
    if kind == 'unpack':
        if len(live) >= 3:
            return None
        cls = getattr(mod, op[1])
        raw = sc['inputs'][op[2]]
        if op[1] != 'K':
            raw = b'\x01' + raw + b'\x00\x00'
        live.append(cls.unpack(raw))
        return len(live) - 1
    if kind == 'origin':
        # the packet the program declared as prototype is not one of the live packets: all of them are bystanders
        o = mod.proto
        nm, v = first_field(o, lambda v: isinstance(v, int) and not isinstance(v, bool))
        setattr(o, nm, (v + 1) % 7)
        nm, v = first_field(o, lambda v: isinstance(v, list))
        if nm is not None:
            v.append(3)
        return 'all'
    slot = op[1]
    if slot >= len(live):
        return None
    p = live[slot]
    if kind == 'pack':
        try_pack(p)
        return slot
    if kind == 'scalar':
        nm, v = first_field(p, lambda v: isinstance(v, (int, bytes)) and not isinstance(v, bool))
        if nm is None:
            return None
        setattr(p, nm, (v + 1) % 7 if isinstance(v, int) else v + b'!')
        return slot
    if kind == 'bytearray':
        nm, v = first_field(p, lambda v: isinstance(v, (bytes, bytearray)))
        if nm is None:
            return None
        setattr(p, nm, bytearray(bytes(v) + b'~'))
        return slot
    if kind == 'bytes':
        nm, v = first_field(p, lambda v: isinstance(v, bytes))
        if nm is None:
            return None
        setattr(p, nm, v + b'+')
        return slot
    if kind == 'deep':
        # the innermost mutable object: descend through first list elements / nested packets as far as it goes
        cur, depth = p, 0
        while True:
            nm, v = first_field(cur, lambda v: (isinstance(v, list) and v and isinstance(v[0], Packet)) or isinstance(v, Packet)) if isinstance(cur, Packet) else (None, None)
            if nm is None:
                break
            cur = v[0] if isinstance(v, list) else v
            depth += 1
        if depth < 2 or not isinstance(cur, Packet):
            return None
        nm, v = first_field(cur, lambda v: isinstance(v, list))
        if nm is not None:
            v.append(7)
            return slot
        nm, v = first_field(cur, lambda v: isinstance(v, int) and not isinstance(v, bool))
        if nm is None:
            return None
        setattr(cur, nm, (v + 1) % 5)
        return slot
    if kind == 'append':
        nm, v = first_field(p, lambda v: isinstance(v, list))
        if nm is None:
            return None
        if v and isinstance(v[0], Packet):
            v.append(type(v[0])())
        elif v and isinstance(v[0], bytes):
            v.append(b'z')
        else:
            v.append(6)
        return slot
    if kind == 'nested':
        nm, v = first_field(p, lambda v: isinstance(v, Packet))
        if nm is None:
            return None
        n2, v2 = first_field(v, lambda x: isinstance(x, int) and not isinstance(x, bool))
        if n2 is None:
            return None
        setattr(v, n2, (v2 + 1) % 5)
        return slot
    raise ValueError(op)


def run_quiet(mod, sc, hist, classes):
    """the same operations with NO pack() at all (neither the history's nor the harness' observations):
    returns the field snapshots of the live packets at the end, or None if an operation raised"""
    live = []
    for op in hist:
        if op[0] == 'pack':
            continue
        try:
            apply_op(mod, sc, live, op)
        except Exception:
            return None
    return tuple(snap(p) for p in live)


def run_history(mod, sc, hist, classes):
    """returns (error dict or None, canonical state, transitions)"""
    live, S, B = [], [], []
    base_default = {c: (snap(getattr(mod, c)()), try_pack(getattr(mod, c)())) for c in classes}
    trans = 0
    for step, op in enumerate(hist):
        try:
            j = apply_op(mod, sc, live, op)
        except Exception as e:
            return {'sig': 'operation raised', 'what': 'step %d %r raised %r' % (step, op, e)}, None, trans
        if j is None:
            continue
        trans += 1
        if j == 'all':
            for i in range(len(live)):
                si, bi = snap(live[i]), try_pack(live[i])
                if si != S[i] or bi != B[i]:
                    return {'sig': 'bystander fields changed', 'what': 'step %d: changing the packet that was declared as prototype changed packet %d: %r / %r -> %r / %r' % (
                        step, i, S[i], B[i], si, bi)}, None, trans
            continue
        if j == len(S):
            S.append(None)
            B.append(None)
        # the touched packet: pack twice, same bytes, fields unchanged
        s1 = snap(live[j])
        b1 = try_pack(live[j])
        s2 = snap(live[j])
        b2 = try_pack(live[j])
        if s1 != s2:
            return {'sig': 'pack changes fields', 'what': 'step %d %r: pack() changed the fields of packet %d: %r -> %r' % (step, op, j, s1, s2)}, None, trans
        if b1 != b2:
            return {'sig': 'pack not repeatable', 'what': 'step %d %r: two pack() calls on packet %d gave %r then %r' % (step, op, j, b1, b2)}, None, trans
        S[j], B[j] = s1, b1
        # every other packet: unchanged
        for i in range(len(live)):
            if i == j:
                continue
            si = snap(live[i])
            if si != S[i]:
                return {'sig': 'bystander fields changed', 'what': 'step %d %r on packet %d changed the fields of packet %d: %r -> %r' % (step, op, j, i, S[i], si)}, None, trans
            bi = try_pack(live[i])
            if bi != B[i]:
                return {'sig': 'bystander pack changed', 'exp': B[i], 'got': bi,
                        'what': 'step %d %r on packet %d changed pack() of packet %d: %r -> %r' % (step, op, j, i, B[i], bi)}, None, trans
        # no shared mutable sub-object
        owners = {}
        for i, p in enumerate(live):
            acc = {}
            mutable_ids(p, acc)
            for oid, where in acc.items():
                if oid in owners and owners[oid][0] != i:
                    return {'sig': 'shared mutable sub-object', 'what': 'step %d %r: packet %d.%s and packet %d.%s are the same object' % (
                        step, op, owners[oid][0], owners[oid][1], i, where)}, None, trans
                owners[oid] = (i, where)
    # the declared defaults are still what they were - unless the program itself changed the object it had declared as a
    # default (operation 'origin'): what a LATER construction then yields is a matter of C19, not of this property, and the
    # library snapshots Ref(proto) at declaration while it keeps a given default LIST by reference (Python's usual semantics)
    for c in ([] if any(op[0] == 'origin' for op in hist) else classes):
        now = (snap(getattr(mod, c)()), try_pack(getattr(mod, c)()))
        if now != base_default[c]:
            sig = 'defaults changed' if now[0] != base_default[c][0] else 'default pack changed'
            return {'sig': sig, 'exp': base_default[c][1], 'got': now[1],
                    'what': 'after the history %s() holds/packs %r, before %r' % (c, now, base_default[c])}, None, trans
    return None, (tuple(S), tuple(B)), trans


def project(hist, sc, cname):
    """the operations of hist that concern packets of class cname only, with the packet indices renumbered"""
    owner = []          # class of each live packet of the full history
    out = []
    for op in hist:
        if op[0] in ('new', 'unpack'):
            if len(owner) >= 3:
                continue
            owner.append(op[1])
            if op[1] == cname:
                out.append(op)
        elif op[0] == 'origin':
            out.append(op)
        else:
            slot = op[1]
            if slot < len(owner) and owner[slot] == cname:
                out.append((op[0], sum(1 for c in owner[:slot] if c == cname)))
    return out, [i for i, c in enumerate(owner) if c == cname]


def check_projection(scname, gen, sc, hist, classes, canon):
    """non-interference across classes: what the packets of ONE class read and pack as at the end of the history is what they read
    and pack as when only the operations on that class' packets are carried out (on freshly defined classes)"""
    for cname in classes:
        sub, slots = project(hist, sc, cname)
        if not slots or len(sub) == len([op for op in hist]):
            continue
        with mk.World() as w:
            mod2, classes2, _ = define(scname, gen, w)
            err, canon2, _ = run_history(mod2, sc, sub, classes2)
        if err or canon2 is None:
            continue
        full = [(canon[0][i], canon[1][i]) for i in slots]
        alone = list(zip(canon2[0], canon2[1]))
        if full != alone:
            return {'sig': 'packets of one class depend on what happened to another class',
                    'what': 'the %s packets end as %r; with only the operations on %s packets carried out %r they end as %r' % (cname, full, cname, sub, alone)}
    return None


def narrow(scname, err):
    """mechanism signature; the regex-delimiter-not-kept leak gets its own narrow one"""
    sig = '%s: %s' % (scname, err['sig'])
    if 'regex-nonkept' in SCENARIOS[scname]['tags'] and err['sig'] in ('bystander pack changed', 'default pack changed'):
        e, g = err.get('exp'), err.get('got')
        if e and g and e[0] == 'ok' and g[0] == 'ok':
            strip = lambda b: re.sub(b'X+', b'', b)
            if strip(e[1]) == strip(g[1]):
                return 'regex delimiter not kept: pack() re-emits the delimiter last matched through the shared field object'
    return sig


def define(scname, gen, w):
    sc = SCENARIOS[scname]
    body = sc['build'](None if gen else OFF)
    if sc['local']:
        names = re.findall(r'^class (\w+)\(', body, re.M) + re.findall(r'^(proto\w*) = ', body, re.M)
        ind = ''.join('    ' + l + '\n' for l in body.splitlines())
        body = 'def _make():\n%s    return %s\n%s = _make()\n' % (ind, ', '.join(names), ', '.join(names))
    mod = w.module(body)
    classes = ['K'] + (['K2'] if hasattr(mod, 'K2') else [])
    return mod, classes, body


def snippet(scname, gen, hist):
    sc = SCENARIOS[scname]
    with mk.World() as w:
        _, _, body = define(scname, gen, w)
    lines = [mk.HEADER + body, 'live = []']
    for op in hist:
        if op[0] == 'new':
            lines.append('live.append(%s(**%r))' % (op[1], sc['kws'][op[2]] if op[1] == 'K' else {}))
        elif op[0] == 'unpack':
            raw = sc['inputs'][op[2]]
            if op[1] != 'K':
                raw = b'\x01' + raw + b'\x00\x00'
            lines.append('live.append(%s.unpack(%r))' % (op[1], raw))
        else:
            lines.append('# %s on live[%d]  (see mc/props/c13.py apply_op; origin = change the packet named proto)' % (op[0], op[1]))
    lines.append('print([p.pack() for p in live])')
    return '\n'.join(lines)


def _shard(shard, nshards, payload):
    depth = payload['depth']
    st = Stats()
    idx = 0
    for scname in SCENARIOS:
        sc = SCENARIOS[scname]
        for gen in (True, False):
            with mk.World() as w0:
                _, classes, _ = define(scname, gen, w0)
            ops = op_alphabet(sc, classes)
            for d in range(1, depth + 1):
                for hist in itertools.product(ops, repeat=d):
                    if hist[0][0] not in ('new', 'unpack'):
                        continue            # nothing is live yet: the operation is a no-op
                    idx += 1
                    if idx % nshards != shard:
                        continue
                    # class objects carry field state: every history runs on freshly defined classes; first the
                    # pack-free twin of the history (see below), then the history itself
                    quiet = None
                    if 'origin' in sc['tags'] and len(hist) >= 2:
                        # the twin changes a module-level object: it gets a module of its own
                        with mk.World() as wq:
                            modq, classesq, _ = define(scname, gen, wq)
                            quiet = run_quiet(modq, sc, hist, classesq)
                    with mk.World() as w:
                        mod, classes, body = define(scname, gen, w)
                        if 'origin' not in sc['tags']:
                            quiet = run_quiet(mod, sc, hist, classes) if len(hist) >= 2 else None
                        err, canon, trans = run_history(mod, sc, hist, classes)
                    st.inc('histories')
                    st.inc('transitions', trans)
                    if canon is not None:
                        st.add('states', (scname, gen, common.digest(canon)))
                    st.add('outcomes', (scname, err['sig'] if err else None))
                    if not err and canon is not None and len(hist) >= 2:
                        # observational purity: the same operations with no pack() at all - neither the history's own
                        # nor the harness' observations - must leave every packet reading the same
                        if quiet is not None and quiet != canon[0]:
                            err = {'sig': 'an earlier pack() changes later observations',
                                   'what': 'the packets read %r, after the same operations without any pack() call they read %r' % (canon[0], quiet)}
                    if not err and canon is not None and len(classes) > 1 and len(hist) >= 2:
                        err = check_projection(scname, gen, sc, hist, classes, canon)
                    if err:
                        st.violate(narrow(scname, err), '%s (generated=%s) history %r: %s' % (scname, gen, list(hist), err['what']),
                                   {'scenario': scname, 'gen': gen, 'hist': [list(o) for o in hist]}, snippet(scname, gen, hist))
                    elif idx % 20011 == common.SEED % 20011:
                        st.sample({'scenario': scname, 'generated': gen, 'history': repr(list(hist))})
    return st


def run(tier):
    depth = 3 if tier == 'quick' else 4
    st = common.merge_all(common.run_sharded(_shard, {'depth': depth}))
    from mc import sched_c13
    th = sched_c13.run(tier)
    st.merge(th['stats'])
    if not st.samples:
        st.sample({'scenario': 'seq', 'history': "[('unpack','K',0), ('new','K',0), ('append',0), ('pack',1)]"})
    cov = {
        'states': st.count('states') + th['states'], 'transitions': st.n.get('transitions', 0) + th['transitions'],
        'traces_validated_against_impl': st.n.get('histories', 0) + th['schedules'], 'evaluations': st.n.get('histories', 0) + th['schedules'],
        'distinct_nontrivial': st.count('states') + th['states'], 'programs': 2 * len(SCENARIOS),
        'rule': 'sequential: all histories of length <=%d over construct / unpack / set scalar / append / set nested / pack on up to 3 live packets, '
                '%d scenarios (one per shared-state shortcut) x generated/generic, first operation a creation; states = distinct tuples of packet snapshots. '
                'threads: %s' % (depth, len(SCENARIOS), th['rule']),
        'exhaustive': True, 'bounds': {'history_depth': depth, 'preemptions': th['preemptions'], 'threads': th['threads']},
        'distinct_outcomes': st.count('outcomes'), 'samples': st.samples + th['samples'],
        'sequential_histories': st.n.get('histories', 0), 'thread_schedules': th['schedules'],
        'schedules_with_both_threads_inside_the_same_field_object': th['overlaps'],
    }
    errs = [n for n in st.notes if n.startswith('HARNESS')] + th.get('harness_errors', [])
    return {'stats': st, 'coverage': cov, 'harness_errors': errs,
            'assumptions': ['thread switches only at source-line boundaries inside bisturi and generated modules',
                            'selectors used from threads return fresh objects (Ref docstring)'] }


def replay(case):
    if 'schedule' in case:
        from mc import sched_c13
        return sched_c13.replay(case)
    hist = [tuple(o) for o in case['hist']]
    sc = SCENARIOS[case['scenario']]
    with mk.World() as wq:
        modq, classesq, _ = define(case['scenario'], case['gen'], wq)
        quiet = run_quiet(modq, sc, hist, classesq) if len(hist) >= 2 else None
    with mk.World() as w:
        mod, classes, _ = define(case['scenario'], case['gen'], w)
        err, canon, _ = run_history(mod, sc, hist, classes)
    if not err and canon is not None and len(classes) > 1 and len(hist) >= 2:
        err = check_projection(case['scenario'], case['gen'], sc, hist, classes, canon)
    if not err and quiet is not None and canon is not None and quiet != canon[0]:
        err = {'sig': 'an earlier pack() changes later observations', 'what': 'with packs %r, without any pack %r' % (canon[0], quiet)}
    return [{'sig': narrow(case['scenario'], err), 'what': err['what']}] if err else []
