"""C12  Every failure is a PacketError that locates the failing field.

E-A: every input the reference rejects (each truncation point, corrupted counts/lengths, missing
delimiters) at nesting depth 0..2, generated and generic; every ill-valued / ill-typed / colliding value
on pack at every leaf position; non-bytes inputs. Oracle: a PacketError with the right phase flag, whose
innermost entry names the field the reference blames (or the run of adjacent fixed-size fields / Bits
containing it), its class and the offset where that field or run begins, followed outward by exactly the
enclosing reference/sequence fields; str(e) works; silent=True gives None; non-bytes -> ValueError.
"""
import re
import sys

from mc import common, ea, alphabet, ir, refsem

MODULE = 'mc.props.c12'
BETWEEN = re.compile(r"^between '(.+)' and '(.+)'$")


def optimized_specs(tier):
    """every component alone, once more under python -O (assert statements stripped)"""
    return [{'names': [c], 'wrapper': 'a'} for c in alphabet.COMPONENTS if c not in globals().get('EXCLUDED', ())]


def decl_specs(tier):
    specs = []
    for names, w in alphabet.declarations(tier):
        specs.append({'names': list(names), 'wrapper': w})
        if len(names) == 1 and w == 'a':
            specs.append({'names': list(names), 'wrapper': w, 'opts': {'generate_for_pack': False, 'generate_for_unpack': False}})
    # vectorised runs: the failing field is inside a run of adjacent fixed-size fields
    for run in (['i1', 'i2', 'i2l', 'i1'], ['i2', 'd2', 'i1'], ['i1', 'i3', 'i2', 'i2'], ['dn', 'i1', 'i2', 'i4'], ['i2l', 'i2l', 'i2', 'd2']):
        for w in 'abc':
            specs.append({'names': run, 'wrapper': w})
        specs.append({'names': run, 'wrapper': 'a', 'opts': {'vectorize': False}})
        specs.append({'names': run, 'wrapper': 'a', 'opts': {'generate_for_pack': False, 'generate_for_unpack': False}})
    # depth 2: packet in sequence in packet in sequence
    for c in ('i2', 'dn', 'sr', 'r1', 'm0', 'b35'):
        K = alphabet.make_decl([c], None, 'c')
        K['name'] = 'Mid'
        specs.append({'P': ir.PKT('Top', [('pre', ir.I(1)), ('mid', ir.R(K)), ('post', ir.I(1))]), 'tag': 'depth2-' + c})
    for c in ('i1', 'i3', 'dn', 'm0', 'b35', 'sn', 'su', 'sr', 'o1', 'r1', 'rs', 'sdn'):
        specs.append({'names': [c], 'wrapper': 'd'})
    for o in ({}, {'generate_for_pack': False, 'generate_for_unpack': False}, {'generate_for_unpack': False}, {'vectorize': False}):
        specs.append({'special': 'check_recursive', 'opts': o, 'names': []})
    specs.extend(alphabet.families())
    specs.extend(alphabet.boundary_specs())
    specs.extend(alphabet.structure_specs())
    return specs


def names_in_run(P, a, b):
    names = [n for n, _ in P['fields']]
    if a in names and b in names and names.index(a) <= names.index(b):
        return names[names.index(a):names.index(b) + 1]
    return None


def check_error(dc, st, e, f, phase_unpack, what, case, snip):
    """e: the PacketError raised by the implementation; f: the reference Fail"""
    srcline = dc.src.replace('\n', '; ')
    tag = 'unpack' if phase_unpack else 'pack'

    def viol(sig, msg):
        st.violate('%s %s' % (tag, sig), '%s: %s | stack=%r reference=%r | %s' % (what, msg, getattr(e, 'fields_stack', None), f.stack, srcline), case, snip)

    if e.was_error_found_in_unpacking_phase is not phase_unpack:
        return viol('phase-flag', 'was_error_found_in_unpacking_phase is %r' % (e.was_error_found_in_unpacking_phase,))
    try:
        s = str(e)
        if not isinstance(s, str):
            return viol('str', 'str(e) is not a string')
    except Exception as x:
        return viol('str', 'str(e) raised %r' % (x,))
    if not hasattr(e, 'packet'):
        return viol('packet-attribute', 'the exception has no .packet')
    stack = e.fields_stack
    if len(stack) != len(f.stack):
        return viol('stack-depth', 'stack has %d entries, %d enclosing fields expected' % (len(stack), len(f.stack)))
    off, name, cls = stack[0]
    roff, rnames, rcls = f.stack[0]
    if cls != rcls:
        return viol('innermost-class', 'innermost entry names class %r, expected %r' % (cls, rcls))
    ok_offsets = {roff}
    fs = getattr(f, 'field_starts', {})
    P = dc.pkts.get(rcls)
    m = BETWEEN.match(name) if isinstance(name, str) else None
    fieldnames = [n for n, _ in P['fields']] if P else []
    if not m and isinstance(name, str) and name not in fieldnames and not name.startswith('_'):
        # any other spelling of "the run of adjacent fields from x to y": the field names it mentions
        toks = [t for t in (x[len('_described_'):] if x.startswith('_described_') else x for x in re.findall(r'[A-Za-z_][A-Za-z_0-9]*', name)) if t in fieldnames]
        if toks:
            m = (toks[0], toks[-1])
    elif m:
        m = (m.group(1), m.group(2))
    if m:
        # a described field appears under its hidden name
        m = tuple(x[len('_described_'):] if x.startswith('_described_') else x for x in m)
    if m:
        run = names_in_run(P, m[0], m[1]) if P else None
        if not run or not (set(run) & set(rnames)):
            return viol('innermost-name', 'run %r does not contain the failing field %r' % (name, rnames))
        ok_offsets = {fs.get(run[0], roff)}
    else:
        aliases = set(rnames) | {'_described_' + n for n in rnames}
        if name not in aliases:
            return viol('innermost-name', 'innermost entry names %r, the failing field is %r' % (name, rnames))
        if not phase_unpack:
            for n in rnames:
                if n in fs:
                    ok_offsets.add(fs[n])       # a repeated field: the field or the failing element
    if off not in ok_offsets:
        return viol('innermost-offset', 'innermost offset %r, the failing field/run begins at %r' % (off, sorted(ok_offsets)))
    for (o, n, c), (ro, rn, rc) in zip(stack[1:], f.stack[1:]):
        if c != rc or n not in rn:
            return viol('outer-entry', 'outer entry (%r, %r), expected (%r, %r)' % (n, c, rn, rc))
    st.add('outcomes', (tag, len(stack), bool(m)))


def check_unpack(dc, st, raw, r):
    st.inc('evaluations')
    if r[0] != 'fail':
        return
    u = ea.impl_unpack(dc.K, raw)
    case = dc.case(raw=raw)
    call = '%s.unpack(%r)' % (dc.P['name'], raw)
    snip = dc.snippet('%s' % call)
    st.add('states', (dc.spec.get('tag') or tuple(dc.spec.get('names', ())), dc.spec.get('wrapper'), 'u', u[0], tuple(r[1].stack[0][1]), r[1].stack[0][0]))
    if u[0] == 'ok':
        st.inc('disagree')
        return
    st.inc('rejected')
    if u[0] == 'exc':
        st.violate('unpack not-a-PacketError: %s' % type(u[1]).__name__, '%s raised %r | %s' % (call, u[1], dc.src.replace('\n', '; ')), case, snip)
        return
    check_error(dc, st, u[1], r[1], True, call, case, snip)
    try:
        sil = dc.K.unpack(raw, silent=True)
    except Exception as x:
        sil = x
    if sil is not None:
        st.violate('unpack silent', '%s with silent=True gave %r | %s' % (call, sil, dc.src.replace('\n', '; ')), case, snip)


def bad_leaf_values(pv, P, pkts):
    """(path description, mutated PV) with exactly one ill-valued / ill-typed leaf"""
    out = []

    def for_node(node, v, put, where):
        k = node['k']
        if k == 'int':
            n = node['n']
            bads = [256 ** n, (-1 if not node.get('signed') else -(256 ** n) // 2 - 1), None, 'x', 1.5]
            if v != 0:
                bads.append(0)      # in range, but a position / alignment / divisor computed from it may fail
            for b in bads:
                out.append((where + ' int=' + repr(b), put(b)))
        elif k == 'data':
            for b in (5, None, 'x'):
                out.append((where + ' data=' + repr(b), put(b)))
        elif k == 'bits':
            for b in (None, 'x'):
                out.append((where + ' bits=' + repr(b), put(b)))
        elif k == 'ref':
            out.append((where + ' ref=5', put(5)))
            if isinstance(v, ir.PV):
                for_pkt(node['pkt'], v, lambda nv: put(nv), where + '.')
        elif k == 'seq':
            if isinstance(v, list):
                for i, x in enumerate(v[:2]):
                    def put_i(nx, i=i):
                        nl = list(v)
                        nl[i] = nx
                        return put(nl)
                    for_node(node['elem'], x, put_i, '%s[%d]' % (where, i))
        elif k == 'opt':
            if v is not None:
                for_node(node['elem'], v, put, where)
        elif k == 'refsel':
            if isinstance(v, ir.PV) and v.name in pkts:
                for_pkt(pkts[v.name], v, lambda nv: put(nv), where + '.')

    def for_pkt(Pk, pvk, putpkt, where):
        for fname, node in Pk['fields']:
            if node['k'] == 'em':
                continue

            def put(nv, fname=fname):
                npv = ir.PV(pvk.name, dict(pvk.vals))
                npv.vals[fname] = nv
                return putpkt(npv)
            for_node(node, pvk.vals[fname], put, where + fname)

    for_pkt(P, pv, lambda x: x, '')
    return out


def check_pack_value(dc, st, pv, label):
    st.inc('evaluations')
    try:
        refsem.encode(dc.P, pv, dc.pkts)
        return                      # encodable: nothing to locate
    except refsem.OutOfScope:
        st.inc('oos')
        return
    except refsem.Fail as f:
        fail = f
    try:
        p = ir.construct(dc.mod, dc.P, pv, 'kw')
    except Exception:
        return
    out = ea.impl_pack(p)
    case = dc.case(pv=pv.tojson())
    call = '%s.pack()' % ir.value_src(pv)
    snip = dc.snippet(call)
    st.add('states', (dc.spec.get('tag') or tuple(dc.spec.get('names', ())), dc.spec.get('wrapper'), 'p', out[0], tuple(fail.stack[0][1]), label.split('=')[-1]))
    if out[0] == 'ok':
        st.violate('pack accepts: %s' % label.split(' ')[-1].split('=')[0], '%s returned %r but %s | %s' % (call, out[1], fail.why, dc.src.replace('\n', '; ')), case, snip)
        return
    st.inc('pack_failures')
    if out[0] == 'exc':
        st.violate('pack not-a-PacketError: %s' % type(out[1]).__name__, '%s raised %r | %s' % (call, out[1], dc.src.replace('\n', '; ')), case, snip)
        return
    check_error(dc, st, out[1], fail, False, call, case, snip)


def check_nonbytes(dc, st):
    for bad in ('abc', bytearray(b'abc'), memoryview(b'abc'), None, 5, [1, 2]):
        for kw in ({}, {'silent': True}):
            st.inc('evaluations')
            try:
                res = dc.K.unpack(bad, **kw)
                st.violate('non-bytes accepted', 'unpack(%r) returned %r' % (bad, res), dc.case(nonbytes=repr(bad)))
                return
            except ValueError:
                pass
            except Exception as e:
                st.violate('non-bytes wrong exception', 'unpack(%r) raised %r instead of ValueError' % (bad, e), dc.case(nonbytes=repr(bad)))
                return


def recursive_src(opts):
    from mc import mk
    return (mk.class_src('End', ['mark = Int(1)']) + '\n' +
            mk.class_src('Node', ['value = Int(1)', 'has_next = Int(1)', 'next = Ref(lambda **k: Node(), default=End()).when(has_next)'], opts or None))


def check_recursive(st, spec):
    """nesting ladder with ONE class: a linked list of Node packets 1..9 deep; a failure in the node at depth d (truncated input /
    a value that does not fit) must carry the failing field plus one ('next', 'Node') entry per enclosing reference"""
    from bisturi.packet import PacketError
    from mc import mk
    opts = spec.get('opts') or {}
    src = recursive_src(opts)
    with mk.World() as w:
        m = w.module(src)
        st.inc('programs')
        for d in range(1, 10):
            for cut in (b'', b'\x05'):
                raw = b'\x05\x01' * (d - 1) + cut
                st.inc('evaluations')
                st.inc('rejected')
                try:
                    m.Node.unpack(raw)
                    got = 'accepted'
                except PacketError as e:
                    try:
                        txt = str(e)
                    except Exception as e2:
                        txt = e2
                    got = (e.was_error_found_in_unpacking_phase, [tuple(x) for x in e.fields_stack], isinstance(txt, str))
                except Exception as e:
                    got = repr(e)
                ok = (isinstance(got, tuple) and got[0] is True and got[2] and len(got[1]) == d and
                      got[1][0][2] == 'Node' and
                      ((got[1][0][0] == 2 * (d - 1) and 'value' in got[1][0][1]) or (cut and got[1][0] == (2 * (d - 1) + 1, 'has_next', 'Node'))) and
                      all(got[1][i] == (2 * (d - i), 'next', 'Node') for i in range(1, d)))
                st.add('states', ('recursive', repr(opts), d, len(cut)))
                if not ok:
                    st.violate('recursive nesting: unpack stack', 'Node.unpack(%r) (a list of %d nodes, the last one cut): %r; expected the failing field of Node at %d and then %s | %s' % (
                        raw, d, got, 2 * (d - 1), [(2 * (d - i), 'next', 'Node') for i in range(1, d)], src.replace('\n', '; ')),
                        {'spec': spec}, mk.HEADER + src + 'Node.unpack(%r)' % raw)
                    return
            # serializing: the node at depth d holds a value that does not fit
            head = None
            for v in reversed([1] * (d - 1) + [300]):
                head = m.Node(value=v, has_next=int(head is not None), next=head)
            st.inc('evaluations')
            st.inc('pack_failures')
            try:
                head.pack()
                got = 'packed'
            except PacketError as e:
                try:
                    txt = str(e)
                except Exception as e2:
                    txt = e2
                got = (e.was_error_found_in_unpacking_phase, [tuple(x) for x in e.fields_stack], isinstance(txt, str))
            except Exception as e:
                got = repr(e)
            ok = (isinstance(got, tuple) and got[0] is False and got[2] and len(got[1]) == d and got[1][0][2] == 'Node' and 'value' in got[1][0][1] and
                  got[1][0][0] == 2 * (d - 1) and all(x[1:] == ('next', 'Node') for x in got[1][1:]))
            if not ok:
                st.violate('recursive nesting: pack stack', 'a list of %d nodes whose last value is 300: pack() -> %r; expected the failing field of Node at %d and then %d entries (.., next, Node) | %s' % (
                    d, got, 2 * (d - 1), d - 1, src.replace('\n', '; ')), {'spec': spec}, mk.HEADER + src)
                return


def check_decl(dc, st, tier, only=None):
    if only is not None:
        if 'raw' in only:
            check_unpack(dc, st, only['raw'], ea.ref_parse(dc.P, only['raw']))
        elif 'pv' in only:
            check_pack_value(dc, st, ir.val_fromjson(only['pv']), 'replay x=y')
        else:
            check_nonbytes(dc, st)
        return
    budget = ea.budget_for(dc, tier, thorough=2000)
    seen = set()
    npv = 0
    for raw, r in ea.inputs_for(dc, budget, ext=True if dc.spec.get('tag') else None):
        check_unpack(dc, st, raw, r)
        if r[0] == 'ok' and npv < (6 if tier == 'quick' else 25):
            key = repr(r[1].pv)
            if key not in seen and len(key) < 400:
                seen.add(key)
                npv += 1
                check_pack_value(dc, st, r[1].pv, 'collision x=y')
                for label, bad in bad_leaf_values(r[1].pv, dc.P, dc.pkts):
                    check_pack_value(dc, st, bad, label)
    check_nonbytes(dc, st)


def run(tier):
    st = ea.run(MODULE, tier)
    from mc import ea_o
    so = ea_o.run(MODULE, tier)         # every component alone once more under python -O (assert statements stripped)
    st.merge(so)
    st.notes.extend(so.notes)
    LADDER_NOTE = '; plus the shared size and structure ladders (mc/alphabet.py boundary_specs / structure_specs): lengths and counts 5, 8, 9, 16, 17, 32, 33, 64, 65, 128, 129, 255, 256, 257, 1024, 1025, 4096, 4097, 8192, 8193 behind one-, two- and three-byte length fields with their exact encodings (and the same cut short), constant counts and sizes 15..257 first in a packet, far positions (holes of 255..8192 bytes), chains of 4..8 references, lists of lists of lists, nine-byte integers, bit runs of 40/72/80 bits, declarations of 24 components and runs of 17..40 fixed fields, holders whose options differ from the held class, the nested class alone on the field-by-field loop'
    cov = ea.coverage(st, 'every declaration of the alphabet (x wrappers, generic and generated, vectorised runs, depth-2 nesting); unpack: every input of '
                          'the enumeration that the reference rejects; pack: for the first distinct accepted values, every leaf replaced by each ill value '
                          '(out of range, None, str, float / non-bytes / non-packet) and colliding positions; non-bytes inputs; '
                          'states = distinct (declaration, phase, outcome, blamed field, offset or ill value)',
                      {'pack_failures_checked': st.n.get('pack_failures', 0), 'unpack_failures_checked': st.n.get('rejected', 0)})
    cov['rule'] += LADDER_NOTE
    cov['rule'] += '; every component alone once more in child interpreters started with -O'
    cov['programs_under_python_O'] = st.n.get('programs_under_O', 0)
    return {'stats': st, 'coverage': cov,
            'assumptions': ['outer stack entries are compared by field name and class only (the statement fixes the offset of the innermost entry)',
                            'on pack of a repeated field both the start of the field and of the failing element are accepted']}


def replay(case):
    if case.get('optimized') and sys.flags.optimize < 1:
        from mc import ea_o
        return ea_o.replay(MODULE, case)
    if case.get('spec', {}).get('special') == 'check_recursive':
        from mc.common import Stats
        st = Stats()
        check_recursive(st, case['spec'])
        return st.violations
    return ea.replay_decl(sys.modules[__name__], case)
