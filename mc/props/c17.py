"""C17  Auto/AutoLength fields always read and serialize consistently.

E-B: ALL operation histories up to a depth bound (set tracked field, set described field, delete it,
pack, unpack) from every initial state (constructor with/without the keywords, unpack), for
AutoLength / Auto / described field inside a vectorised run / inside a referenced sub-packet, under
generated, generic and mixed code paths. Reference model: (enabled, explicit value, a).
"""
import itertools

from mc import common, mk
from mc.common import Stats

A_VALUES = [b'', b'x', b'xyz']
L_VALUES = [0, 2, 7]
OPS = [('set_a', v) for v in A_VALUES] + [('set_len', v) for v in L_VALUES] + [('del_len',), ('pack',), ('unpack', b'\x02ab')]
# the tracked value as a mutable buffer the program owns (a bytearray of the same content): a sized value like any other
OPS_BUF = [('set_a_buf', v) for v in A_VALUES] + [('set_len', 7), ('del_len',), ('pack',), ('unpack', b'\x02ab')]
BUF_KINDS = ('autolength', 'sub', 'two')
BUF_PATHS = ('generated', 'generic')
INITS = [('new', {}), ('new', {'a': b'ab'}), ('new', {'length': 5}), ('new', {'length': 1, 'a': b'abc'}), ('new', {'length': 0, 'a': b'ab'}),
         ('unpack', b'\x01x'), ('unpack', b'\x00')]

KINDS = {
    'autolength': (["length = Int(1).describe(AutoLength('a'))", 'a = Data(length)'], None),
    'auto': (['length = Int(1).describe(Auto(lambda pkt: len(pkt.a)))', 'a = Data(length)'], None),
    'run': (['x = Int(1)', "length = Int(1).describe(AutoLength('a'))", 'y = Int(2)', 'a = Data(length)'], None),
    'sub': (["length = Int(1).describe(AutoLength('a'))", 'a = Data(length)'], ['pre = Int(1)', 'body = Ref(K)', 'post = Int(1)']),
    'sub-proto': (["length = Int(1).describe(AutoLength('a'))", 'a = Data(length)'], ['pre = Int(1)', 'body = Ref(K(length=5, a=b"xy"))', 'post = Int(1)']),
    # two described fields, a struct-coded one before one without struct code (the sync hooks are indexed)
    'two': (["length = Int(1).describe(AutoLength('a'))", "m = Int(3).describe(AutoLength('b'))", 'a = Data(length)', "b = Data(m, default=b'pq')"], None),
    'two-rev': (["m = Int(3).describe(AutoLength('b'))", "length = Int(1).describe(AutoLength('a'))", "b = Data(m, default=b'pq')", 'a = Data(length)'], None),
    # the class with the described field is embedded: its fields become fields of the embedding class
    'embed': (["length = Int(1).describe(AutoLength('a'))", 'a = Data(length)'], ['pre = Int(1)', 'body = Ref(K(), embed=True)', 'post = Int(1)']),
    # the described field is also positioned (its move pseudo-field precedes it in the field list)
    'at': (["length = Int(1).describe(AutoLength('a')).at(1)", 'a = Data(length)'], None),
    'class-align': (['x = Int(1)', "length = Int(1).describe(AutoLength('a'))", 'a = Data(length)'], None, {'align': 2}),
    'shift-aligned': (['x = Int(1)', "length = Int(1).shift(1).describe(AutoLength('a'))", 'a = Data(length).aligned(4)'], None),
    'at-wide': (["length = Int(2).describe(AutoLength('a')).at(1)", 'y = Int(2)', 'a = Data(length)'], None),
}
SHALLOW = ('at', 'class-align', 'shift-aligned', 'at-wide')      # explored one level less deep
CODEPATHS = {
    'generated': {},
    'generic': {'generate_for_pack': False, 'generate_for_unpack': False},
    'pack-only': {'generate_for_unpack': False},
    'unpack-only': {'generate_for_pack': False},
    'novector': {'vectorize': False},
}


def source(kind, path):
    lines, wrap = KINDS[kind][:2]
    src = mk.class_src('K', lines, dict(CODEPATHS[path], **(KINDS[kind][2] if len(KINDS[kind]) > 2 else {})))
    if wrap:
        src += '\n' + mk.class_src('W', wrap, CODEPATHS[path])
    return src


def encode(kind, length, a):
    body = bytes([length & 0xff]) + a
    if kind == 'run':
        return b'\x00' + bytes([length & 0xff]) + b'\x00\x00' + a
    if kind in ('sub', 'sub-proto', 'embed'):
        return b'\x00' + body + b'\x00'
    if kind == 'two':
        return bytes([length & 0xff]) + b'\x00\x00\x02' + a + b'pq'
    if kind == 'two-rev':
        return b'\x00\x00\x02' + bytes([length & 0xff]) + b'pq' + a
    if kind == 'at':
        return b'.' + body
    if kind in ('class-align', 'shift-aligned'):
        return b'\x00.' + bytes([length & 0xff]) + b'.' + a
    if kind == 'at-wide':
        return b'.\x00' + bytes([length & 0xff]) + b'\x00\x00' + a
    return body


def raw_for(kind, r):
    if kind == 'sub-proto':
        return b'\x00' + r + b'\x00'
    if kind == 'two':
        return r[:1] + b'\x00\x00\x02' + r[1:] + b'pq'
    if kind == 'two-rev':
        return b'\x00\x00\x02' + r[:1] + b'pq' + r[1:]
    if kind == 'run':
        return b'\x00' + r[:1] + b'\x00\x00' + r[1:]
    if kind in ('sub', 'sub-proto', 'embed'):
        return b'\x00' + r + b'\x00'
    if kind == 'at':
        return b'.' + r
    if kind in ('class-align', 'shift-aligned'):
        return b'\x00.' + r[:1] + b'.' + r[1:]
    if kind == 'at-wide':
        return b'.\x00' + r[:1] + b'\x00\x00' + r[1:]
    return r


class Model:
    def __init__(self):
        self.enabled = True
        self.explicit = None
        self.a = b''

    def visible(self):
        return len(self.a) if self.enabled else self.explicit

    def canon(self):
        return (self.enabled, self.explicit, self.a)


def start(kind, mod, init):
    """returns (top packet, packet carrying the described field, model)"""
    m = Model()
    if init[0] == 'new':
        kw = dict(init[1])
        if kind in ('sub', 'sub-proto'):
            top = mod.W(body=mod.K(**kw))
            tgt = top.body
        elif kind == 'embed':
            top = tgt = mod.W(**kw)
        else:
            top = tgt = mod.K(**kw)
        if 'a' in kw:
            m.a = kw['a']
        if 'length' in kw:
            m.enabled, m.explicit = False, kw['length']
    else:
        r = init[1]
        cls = mod.W if kind in ('sub', 'sub-proto', 'embed') else mod.K
        top = cls.unpack(raw_for(kind, r))
        tgt = top.body if kind in ('sub', 'sub-proto') else top
        m.a = r[1:1 + r[0]]
    return top, tgt, m


def run_history(kind, mod, init, hist):
    """returns (error or None, canonical model state, transitions)"""
    by_top = (mod.W(body=mod.K(a=b'q')) if kind in ('sub', 'sub-proto') else (mod.W(a=b'q') if kind == 'embed' else mod.K(a=b'q')))
    by_tgt = by_top.body if kind in ('sub', 'sub-proto') else by_top
    # a second bystander whose described field is PINNED: what happens to other packets of the class must not unpin it
    pin_top = (mod.W(body=mod.K(length=6, a=b'q')) if kind in ('sub', 'sub-proto') else (mod.W(length=6, a=b'q') if kind == 'embed' else mod.K(length=6, a=b'q')))
    pin_tgt = pin_top.body if kind in ('sub', 'sub-proto') else pin_top
    try:
        top, tgt, m = start(kind, mod, init)
    except Exception as e:
        return ('initial state %r raised %r' % (init, e)), None, 0
    steps = [('init',)] + list(hist)
    trans = 0
    for op in steps:
        try:
            if op[0] == 'set_a':
                tgt.a = op[1]
                m.a = op[1]
            elif op[0] == 'set_a_buf':
                tgt.a = bytearray(op[1])
                m.a = op[1]
            elif op[0] == 'set_len':
                tgt.length = op[1]
                m.enabled, m.explicit = False, op[1]
            elif op[0] == 'del_len':
                del tgt.length
                m.enabled = True
            elif op[0] == 'unpack':
                cls = mod.W if kind in ('sub', 'sub-proto', 'embed') else mod.K
                top = cls.unpack(raw_for(kind, op[1]))
                tgt = top.body if kind in ('sub', 'sub-proto') else top
                m = Model()
                m.a = op[1][1:1 + op[1][0]]
            elif op[0] == 'pack':
                pass
            trans += 1
            vis = m.visible()
            got = tgt.length
            if got != vis:
                return 'after %r: .length reads %r, expected %r (%s)' % (op, got, vis, 'computed' if m.enabled else 'explicit'), m.canon(), trans
            if tgt.a != m.a:
                return 'after %r: .a reads %r, expected %r' % (op, tgt.a, m.a), m.canon(), trans
            out = top.pack()
            exp = encode(kind, vis, m.a)
            if out != exp:
                return 'after %r: pack() = %r, expected %r (what .length reads as, then a)' % (op, out, exp), m.canon(), trans
            if tgt.length != vis or tgt.a != m.a:
                return 'after %r: pack() changed what the attributes read as (%r, %r)' % (op, tgt.length, tgt.a), m.canon(), trans
            if hasattr(tgt, '__dict__') or hasattr(top, '__dict__'):
                return 'instances have a __dict__', m.canon(), trans
            if by_tgt.length != 1 or by_tgt.a != b'q' or by_top.pack() != encode(kind, 1, b'q'):
                return 'after %r: a bystander packet of the class changed (length=%r a=%r)' % (op, by_tgt.length, by_tgt.a), m.canon(), trans
            if op[0] in ('init', 'del_len', 'set_len', 'unpack') and (pin_tgt.length != 6 or pin_tgt.a != b'q' or pin_top.pack() != encode(kind, 6, b'q')):
                return 'after %r: a bystander packet with an assigned length changed (length=%r a=%r)' % (op, pin_tgt.length, pin_tgt.a), m.canon(), trans
        except Exception as e:
            return 'after %r: raised %r' % (op, e), m.canon(), trans
    return None, m.canon(), trans


def snippet(kind, path, init, hist):
    lines = [mk.HEADER + source(kind, path)]
    top = 'W' if kind in ('sub', 'sub-proto', 'embed') else 'K'
    if init[0] == 'new':
        kw = ', '.join('%s=%r' % kv for kv in init[1].items())
        lines.append('p = W(body=K(%s)); t = p.body' % kw if kind in ('sub', 'sub-proto') else ('p = t = %s(%s)' % ('W' if kind == 'embed' else 'K', kw)))
    else:
        lines.append('p = %s.unpack(%r); t = %s' % (top, raw_for(kind, init[1]), 'p.body' if kind in ('sub', 'sub-proto') else 'p'))
    for op in hist:
        if op[0] == 'set_a':
            lines.append('t.a = %r' % op[1])
        elif op[0] == 'set_a_buf':
            lines.append('t.a = bytearray(%r)' % op[1])
        elif op[0] == 'set_len':
            lines.append('t.length = %r' % op[1])
        elif op[0] == 'del_len':
            lines.append('del t.length')
        elif op[0] == 'pack':
            lines.append('p.pack()')
        else:
            lines.append('p = %s.unpack(%r); t = %s' % (top, raw_for(kind, op[1]), 'p.body' if kind in ('sub', 'sub-proto') else 'p'))
    lines.append('print(t.length, t.a, p.pack())')
    return '\n'.join(lines)


def _shard(shard, nshards, payload):
    depth = payload['depth']
    st = Stats()
    idx = 0
    for kind in KINDS:
        for path in CODEPATHS:
            with mk.World() as w:
                mod = w.module(source(kind, path))
                st.inc('programs') if shard == 0 else None
                plans = [(OPS, range(0, depth + (0 if kind in SHALLOW else 1)))]
                if kind in BUF_KINDS and path in BUF_PATHS:
                    plans.append((OPS_BUF, range(1, depth)))
                for ops, depths in plans:
                  for d in depths:
                    for hist in itertools.product(ops, repeat=d):
                        if ops is OPS_BUF and not any(o[0] == 'set_a_buf' for o in hist):
                            continue
                        for ii, init in enumerate(INITS):
                            idx += 1
                            if idx % nshards != shard:
                                continue
                            err, canon, trans = run_history(kind, mod, init, hist)
                            st.inc('histories')
                            st.inc('transitions', trans)
                            st.add('states', (kind, path, canon))
                            st.add('outcomes', (err is None, canon[0] if canon else None))
                            if err:
                                last = hist[-1][0] if hist else 'init'
                                st.violate('%s/%s: %s' % (kind, path, 'raised' if 'raised' in err else err.split(':')[1].strip().split(' ')[0]),
                                           '%s %s init=%r history=%r: %s' % (kind, path, init, list(hist), err),
                                           {'kind': kind, 'path': path, 'init': list(init), 'hist': [list(o) for o in hist]}, snippet(kind, path, init, hist))
                            elif idx % 40009 == common.SEED % 40009:
                                st.sample({'class': kind, 'code': path, 'init': repr(init), 'history': repr(list(hist))})
    return st


def run(tier):
    depth = 4 if tier == "quick" else 5
    st = common.merge_all(common.run_sharded(_shard, {'depth': depth}))
    if not st.samples:
        st.sample({'class': 'autolength', 'code': 'generated', 'init': repr(INITS[2]), 'history': repr([OPS[0], OPS[6], OPS[7]])})
    cov = {
        'states': st.count('states'), 'transitions': st.n.get('transitions', 0),
        'traces_validated_against_impl': st.n.get('histories', 0), 'evaluations': st.n.get('histories', 0),
        'distinct_nontrivial': st.count('states'), 'programs': len(KINDS) * len(CODEPATHS),
        'rule': 'all histories of length 0..%d over %d operations (set a x3, set length x3, del length, pack, unpack) from %d initial states, for %d class kinds (the four positioned ones one level less deep) '
                '(plus, for three kinds on two code paths, histories one shorter in which the tracked value is a bytearray) x %d code paths, each on fresh real packets with a bystander packet; after every step attribute reads, pack(), no __dict__, bystander '
                'unchanged vs the model (enabled, explicit, a); states = distinct (kind, code path, model state)' % (depth, len(OPS), len(INITS), len(KINDS), len(CODEPATHS)),
        'exhaustive': True, 'bounds': {'depth': depth}, 'distinct_outcomes': st.count('outcomes'), 'samples': st.samples,
    }
    return {'stats': st, 'coverage': cov, 'assumptions': ['lengths <= 7 so that one byte always holds them']}


def replay(case):
    with mk.World() as w:
        mod = w.module(source(case['kind'], case['path']))
        init = (case['init'][0], case['init'][1])
        err, _, _ = run_history(case['kind'], mod, init, [tuple(o) for o in case['hist']])
    return [{'sig': 'replay', 'what': err}] if err else []
