"""C06  Byte-string fields take exactly the declared bytes or stop at the first delimiter.

E-A, single kind, sentinel-framed: pre = Int(1) . one Data . post = Int(1) for every sizing mode x
include_delimiter x consume_delimiter x search_buffer_length, flat and inside a repeated reference;
all inputs up to the bound over {marker bytes, X, Y, counts, 0xff, filler}. Oracle: reference value,
cursor (where `post` is read / end offset), error cases, and pack = value + excluded literal delimiter.
"""
import sys

from mc import common, ea, ir, refsem
from mc.ir import PKT, I, D, DM, DR, DEOS, F, C, BIN, R, S

MODULE = 'mc.props.c06'


def data_variants():
    out = []
    for k in (0, 1, 2):
        out.append(('const%d' % k, None, D(C(k))))
    out.append(('field', I(1), D(F('n'))))
    out.append(('sfield', I(1, signed=True), D(F('n'))))
    out.append(('expr-mul', I(1), D(BIN('mul', F('n'), C(2)))))
    out.append(('expr-add', I(1, signed=True), D(BIN('add', F('n'), C(1)))))
    out.append(('expr-rsub', I(1), D(BIN('sub', C(2), F('n')))))
    out.append(('callable', I(1), D(BIN('add', F('n'), C(1)), sp='lambda')))
    out.append(('callable-field', I(1, signed=True), D(F('n'), sp='lambda')))
    for m in (b'\x00', b'ab', b'aab'):
        out.append(('marker-%s' % m.hex(), None, DM(m)))
        out.append(('marker-%s-incl' % m.hex(), None, DM(m, incl=True)))
        out.append(('marker-%s-noconsume' % m.hex(), None, DM(m, consume=False)))
    for pat in (b'X+', b'[XY]', b'XY?', b'(?<!Y)X', b'\\bX'):
        out.append(('regex-%s-incl' % pat.decode(), None, DR(pat, incl=True)))
        out.append(('regex-%s' % pat.decode(), None, DR(pat, incl=False)))
        out.append(('regex-%s-noconsume' % pat.decode(), None, DR(pat, incl=False, consume=False)))
    # expressions compiled WITH flags (ignore case, dot matches newline, multiline anchors)
    for pat, fl in ((b'x', 'I'), (b'xY', 'I'), (b'X.', 'S'), (b'^X', 'M'), (b'x.', 'IS')):
        out.append(('regex-%s-flags-%s-incl' % (pat.decode(), fl), None, DR(pat, incl=True, flags=fl)))
        out.append(('regex-%s-flags-%s' % (pat.decode(), fl), None, DR(pat, incl=False, flags=fl)))
    out.append(('regex-X+|$-incl', None, DR(b'X+|$', incl=True)))
    out.append(('eos', None, DEOS()))
    return out


def decl_specs(tier):
    specs = []
    for tag, hdr, node in data_variants():
        delimited = node['mode'] in ('marker', 'regex')
        sbls = [None, 0, 2, 3] if delimited and '$' not in tag else [None]
        for sbl in sbls:
            for gen in (True, False):
                if not gen and sbl not in (None, 3):
                    continue
                fields = [('pre', I(1))]
                if hdr is not None:
                    fields.append(('n', hdr))
                fields.append(('d', node))
                if node['mode'] != 'eos' and '$' not in tag:
                    fields.append(('post', I(1)))
                opts = {}
                if sbl is not None:
                    opts['search_buffer_length'] = sbl
                if not gen:
                    opts['generate_for_unpack'] = False
                    opts['generate_for_pack'] = False
                K = PKT('K', fields, **opts)
                specs.append({'P': K, 'tag': '%s sbl=%s gen=%s' % (tag, sbl, gen)})
                if gen and delimited and sbl in (None, 2, 3):
                    # the same field made optional: .when(t), and repeated directly: .repeated(c) - the class-wide search
                    # window must reach the wrapped field too
                    KO = PKT('K', [('pre', I(1)), ('t', I(1)), ('d', ir.O(node, F('t'))), ('post', I(1))], **opts)
                    specs.append({'P': KO, 'tag': '%s optional sbl=%s' % (tag, sbl)})
                    if sbl != 2:
                        KS = PKT('K', [('pre', I(1)), ('c', I(1)), ('d', S(node, F('c'))), ('post', I(1))], **opts)
                        specs.append({'P': KS, 'tag': '%s repeated-directly sbl=%s' % (tag, sbl)})
                if gen and sbl is None and node['mode'] == 'size' and hdr is None:
                    # the constant-size string as the ONLY fixed field of its neighbourhood: alone in the class, between two variable
                    # fields, next to integers of the other byte order, last after a variable field
                    specs.append({'P': PKT('K', [('d', node)]), 'tag': '%s alone' % tag})
                    specs.append({'P': PKT('K', [('v', DM(b'\x00')), ('d', node), ('w', DM(b'\x00'))]), 'tag': '%s between variable fields' % tag})
                    specs.append({'P': PKT('K', [('pre', I(2)), ('d', node), ('post', I(2))], endianness='little'), 'tag': '%s little-endian class' % tag})
                    specs.append({'P': PKT('K', [('v', DM(b'\x00')), ('d', node)]), 'tag': '%s last after a variable field' % tag})
                if gen and node['mode'] != 'eos' and '$' not in tag and sbl in (None, 3):
                    W = PKT('W', [('c', I(1)), ('items', S(R(K), F('c')))])
                    specs.append({'P': W, 'tag': '%s sbl=%s repeated' % (tag, sbl)})
    return specs


def optimized_specs(tier):
    """the flat delimited programs (and the sized ones) once more under python -O"""
    out = []
    for sp in decl_specs(tier):
        t = sp['tag']
        if ' gen=True' in t and ('sbl=None' in t or 'sbl=3' in t) and not t.startswith('eos'):
            out.append(sp)
    return out


def check_one(dc, st, raw, r):
    r, u = ea.conformance(dc, st, raw, r)
    st.add('states', (dc.spec['tag'], r[0], u[0] if u else None, len(raw)))
    if u and u[0] == 'ok' and r[0] == 'ok' and 'regex_nonkept' not in dc.feats:
        # packing re-emits the value followed by the excluded literal delimiter
        try:
            exp, _ = refsem.encode(dc.P, r[1].pv, dc.pkts)
        except (refsem.Fail, refsem.OutOfScope):
            return
        out = ea.impl_pack(u[1])
        if out[0] != 'ok' or out[1] != exp:
            st.violate('pack: %s' % dc.spec['tag'].split()[0], 'unpack(%r).pack() -> %r, expected %r | %s' % (raw, out[1], exp, dc.src.replace('\n', '; ')),
                       dc.case(raw=raw), dc.snippet('print(%s.unpack(%r).pack())' % (dc.P['name'], raw)))


def check_stability(dc, st, accepted):
    """packets parsed earlier keep packing the same bytes while other inputs are parsed: the delimiter a
    regexp matched belongs to the packet it was matched for"""
    held = []
    for raw in accepted[:12]:
        u = ea.impl_unpack(dc.K, raw)
        if u[0] == 'ok':
            held.append((raw, u[1], ea.impl_pack(u[1])))
        for raw0, p0, out0 in held:
            now = ea.impl_pack(p0)
            st.inc('stability_checks')
            if now != out0:
                st.violate('pack of an earlier packet changes: %s' % dc.spec['tag'].split()[0],
                           'p = unpack(%r); p.pack() was %r; after unpack(%r) it is %r | %s' % (raw0, out0, raw, now, dc.src.replace('\n', '; ')),
                           dc.case(raw=raw0, then=raw), dc.snippet('p = %s.unpack(%r); a = p.pack(); %s.unpack(%r); print(a, p.pack())' % (dc.P['name'], raw0, dc.P['name'], raw)))
                return


def check_decl(dc, st, tier, only=None):
    if only is not None:
        check_one(dc, st, only['raw'], ea.ref_parse(dc.P, only['raw']))
        if 'then' in only:
            check_stability(dc, st, [only['raw'], only['then']])
        return
    budget = 10000 if tier == 'quick' else 70000
    if dc.spec.get('optimized'):
        budget = 1500 if tier == 'quick' else 10000
    accepted = []
    # long values: the delimiter / the end of the declared size lies 255, 256, 4095, 4096, 4097, 8192 ... bytes away (io buffer
    # sizes, a default search window someone might introduce), for the flat programs
    fnames = [n for n, _ in dc.P['fields']]
    node = dict(dc.P['fields']).get('d') or {}
    if dc.P['name'] == 'K' and fnames in (['pre', 'd', 'post'], ['pre', 'd']) and node.get('k') == 'data' and node.get('mode') in ('marker', 'regex'):
        delim = node.get('m') if node['mode'] == 'marker' else b'X'
        sizes = (254, 255, 256, 257, 1023, 4093, 4094, 4095, 4096, 4097, 8191, 8192, 8193) + ((16384, 65535, 65536, 70000) if tier == 'thorough' else ())
        for N in sizes:
            body = bytes(0x71 + (i % 5) for i in range(N))
            for raw in (b'\x01' + body + delim + b'\x09', b'\x01' + body + delim, b'\x01' + body):
                check_one(dc, st, raw, ea.ref_parse(dc.P, raw))
    for raw, r in ea.inputs_for(dc, budget, ext=False):
        check_one(dc, st, raw, r)
        if r[0] == 'ok' and len(raw) >= 3:
            accepted.append(raw)
    if 'regex' in dc.feats:
        # prefer inputs whose delimiters differ: longest first
        accepted.sort(key=lambda b: (-len(b), b))
        check_stability(dc, st, accepted[:6] + accepted[-6:])


def run(tier):
    st = ea.run(MODULE, tier)
    from mc import ea_o
    so = ea_o.run(MODULE, tier)         # the flat programs once more under python -O (assert statements stripped)
    st.merge(so)
    st.notes.extend(so.notes)
    cov = ea.coverage(st, 'pre=Int(1), one Data, post=Int(1) for every sizing mode (constant 0/1/2, field, signed field, 3 expressions, 2 callables, '
                          '1/2/3-byte markers (ab / aab: overlapping prefixes), 4 regexes, EOS) x include_delimiter x consume_delimiter x '
                          'search_buffer_length in unset/0/2/3 x generated/generic, flat and inside a repeated reference; all inputs up to the bound; '
                          'value, cursor, errors vs the reference; pack = value + excluded literal delimiter; '
                          'states = distinct (program, reference outcome, implementation outcome, input length); the flat programs '
                          '(search window unset / 3) once more in child interpreters started with -O, with a smaller input budget',
                      {'programs_under_python_O': st.n.get('programs_under_O', 0)})
    return {'stats': st, 'coverage': cov, 'harness_errors': [n for n in st.notes if n.startswith('HARNESS')],
            'assumptions': ['reference interpreter mc/refsem.py', 'regex "$" alternatives only without a search window (the window makes "$" ambiguous)']}


def replay(case):
    if case.get('optimized') and sys.flags.optimize < 1:
        from mc import ea_o
        return ea_o.replay(MODULE, case)
    return ea.replay_decl(sys.modules[__name__], case)
