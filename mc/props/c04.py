"""C04  Unpack is strict: no value is decoded from bytes that are not there.

E-A: for every declaration of the alphabet and every input (all strings up to a bound, which is
prefix-closed, plus every truncation of longer encodings) unpack may succeed only if the reference
interpreter - which demands exactly the declared bytes inside the input for every field - succeeds;
unpack(raw, silent=True) is None exactly when unpack(raw) raises.
"""
import sys
from mc import common, ea, alphabet, ir, refsem

MODULE = 'mc.props.c04'
EXCLUDE = ()


def optimized_specs(tier):
    """every component alone, once more under python -O (assert statements stripped)"""
    return [{'names': [c], 'wrapper': 'a'} for c in alphabet.COMPONENTS if c not in globals().get('EXCLUDED', ())]


def decl_specs(tier):
    specs = []
    for names, w in alphabet.declarations(tier):
        specs.append({'names': list(names), 'wrapper': w})
    # wide integers and wide bit groups: truncation-only inputs come from the ramp extension
    for n in (3, 5, 6, 7, 9, 16):
        for signed in (False, True):
            for end in ('big', 'little'):
                P = ir.PKT('K', [('h', ir.I(1)), ('a', ir.I(n, signed=signed, end=end)), ('z', ir.I(1))])
                specs.append({'P': P, 'tag': 'wide-int'})
                specs.append({'P': ir.PKT('K', [('a', ir.I(n, signed=signed, end=end))], generate_for_unpack=False), 'tag': 'wide-int'})
    for widths in ((4, 12, 8), (12, 12), (1, 23), (20, 20), (3, 37), (24, 24), (7, 41), (8, 8, 8), (5, 3, 16, 8, 8)):
        P = ir.PKT('K', [('b%d' % i, ir.B(w)) for i, w in enumerate(widths)] + [('z', ir.I(1))])
        specs.append({'P': P, 'tag': 'wide-bits'})
        P = ir.PKT('K', [('h', ir.I(1))] + [('b%d' % i, ir.B(w)) for i, w in enumerate(widths)], generate_for_unpack=False)
        specs.append({'P': P, 'tag': 'wide-bits'})
    for c in ('i1', 'i3', 'dn', 'm0', 'b35', 'sn', 'su', 'sr', 'o1', 'r1', 'rs', 'sdn'):
        specs.append({'names': [c], 'wrapper': 'd'})
    specs.extend(alphabet.families())
    specs.extend(alphabet.boundary_specs())
    specs.extend(alphabet.structure_specs())
    return specs


def blame(dc, f):
    """kind of the field the reference blames (narrow signature)"""
    off, names, cls = f.stack[0]
    P = dc.pkts.get(cls)
    for fname, node in (P['fields'] if P else []):
        if fname in names:
            k = node['k']
            if k == 'int':
                return 'int width %s' % ('1,2,4,8' if node['n'] in (1, 2, 4, 8) else 'other')
            if k == 'bits':
                return 'bits'
            if k == 'data':
                return 'data ' + node['mode']
            if k in ('seq', 'opt'):
                return k + ' of ' + node['elem']['k']
            return k
    return '?'


def check_input(dc, st, raw, r=None):
    st.inc('evaluations')
    if r is None:
        r = ea.ref_parse(dc.P, raw)
    if r[0] == 'oos':
        st.inc('oos')
        return
    u = ea.impl_unpack(dc.K, raw)
    if u[0] == 'exc' and len(raw) > 3:
        st.violate('rejects with another exception', 'unpack(%r): unpack raised %r, which is not a PacketError | %s' % (raw, u[1], dc.src),
                   dc.case(raw=raw), dc.snippet('print(K.unpack(%r))' % raw))
    if len(raw) <= 3 or u[0] == 'ok':
        try:
            silent = dc.K.unpack(raw, silent=True)
        except Exception as e:
            silent = e
        if isinstance(silent, Exception) or u[0] == 'exc':
            # "otherwise it raises PacketError (or returns None with silent=True)": no other exception class, and silent never raises
            which = 'unpack(silent=True) raised %r' % (silent,) if isinstance(silent, Exception) else 'unpack raised %r, which is not a PacketError' % (u[1],)
            st.violate('rejects with another exception', 'unpack(%r): %s | %s' % (raw, which, dc.src),
                       dc.case(raw=raw), dc.snippet('print(K.unpack(%r, silent=True))' % raw))
        elif (u[0] == 'ok') != (silent is not None and not isinstance(silent, Exception)):
            shown = 'None' if silent is None else ('a %s object' % type(silent).__name__ if not isinstance(silent, Exception) else repr(silent))
            st.violate('silent-mismatch', 'unpack(%r) -> %s but unpack(silent=True) -> %s | %s' % (raw, u[0], shown, dc.src),
                       dc.case(raw=raw), dc.snippet('print(K.unpack(%r, silent=True))' % raw))
    if u[0] == 'ok':
        st.inc('accepted')
    else:
        st.inc('rejected')
    st.add('states', (dc.spec.get('tag') or tuple(dc.spec.get('names', ())), r[0], u[0], len(raw)))
    st.add('outcomes', (r[0], u[0]))
    if u[0] == 'ok' and r[0] == 'fail':
        # a field "requires" its bytes up to and including its delimiter, its declared count of elements, ...:
        # whenever the strict reference rejects, unpack must not produce a packet
        f = r[1]
        st.violate('over-accept %s: %s' % ('short read' if f.kind == 'short' else '(%s)' % f.kind, blame(dc, f)),
                   'unpack(%r) succeeded but field %s.%s needs bytes that are not in the input (%s) | %s' % (
                       raw, f.stack[0][2], '/'.join(f.stack[0][1]), f.why, dc.src.replace('\n', '; ')),
                   dc.case(raw=raw), dc.snippet('p = %s.unpack(%r)\nprint(p)' % (dc.P['name'], raw)))


def check_decl(dc, st, tier, only=None):
    if only is not None:
        check_input(dc, st, only['raw'])
        return
    budget = ea.budget_for(dc, tier, thorough=2500)
    for raw, r in ea.inputs_for(dc, budget, ext=True if dc.spec.get('tag') else None):
        check_input(dc, st, raw, r)


def run(tier):
    st = ea.run(MODULE, tier)
    from mc import ea_o
    so = ea_o.run(MODULE, tier)         # every component alone once more under python -O (assert statements stripped)
    st.merge(so)
    st.notes.extend(so.notes)
    LADDER_NOTE = '; plus the shared size and structure ladders (mc/alphabet.py boundary_specs / structure_specs): lengths and counts 5, 8, 9, 16, 17, 32, 33, 64, 65, 128, 129, 255, 256, 257, 1024, 1025, 4096, 4097, 8192, 8193 behind one-, two- and three-byte length fields with their exact encodings (and the same cut short), constant counts and sizes 15..257 first in a packet, far positions (holes of 255..8192 bytes), chains of 4..8 references, lists of lists of lists, nine-byte integers, bit runs of 40/72/80 bits, declarations of 24 components and runs of 17..40 fixed fields, holders whose options differ from the held class, the nested class alone on the field-by-field loop'
    cov = ea.coverage(st, 'every declaration of the component alphabet (singles x 3 wrappers, pairs%s) plus wide integers (3,5,6,7,9,16 bytes) and '
                          'bit groups of 24..48 bits; inputs: all strings up to the length bound over the declaration alphabet (prefix-closed) plus '
                          'ramp extensions of the too-short ones one byte at a time (every truncation point of longer encodings); '
                          'states = distinct (declaration, reference outcome, implementation outcome, input length)' %
                      (' over the reduced alphabet' if tier == 'quick' else ' x 3 wrappers, triples over the reduced alphabet'))
    cov['rule'] += LADDER_NOTE
    cov['rule'] += '; every component alone once more in child interpreters started with -O'
    cov['programs_under_python_O'] = st.n.get('programs_under_O', 0)
    return {'stats': st, 'coverage': cov,
            'assumptions': ['reference interpreter mc/refsem.py', 'inputs bounded in length and alphabet (see coverage.rule)']}


def replay(case):
    if case.get('optimized') and sys.flags.optimize < 1:
        from mc import ea_o
        return ea_o.replay(MODULE, case)
    import sys
    return ea.replay_decl(sys.modules[__name__], case)
