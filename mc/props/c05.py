"""C05  Integer fields encode and decode exact two's-complement values.

E-A, single kind: every Int configuration (width x signedness x endianness spelling x class default x
position in a one/two-field packet x generated/generic code) is turned into a real class and driven with
all byte patterns (n<=2) or the lane-exhaustive pattern set (n>2), and with all / boundary values on
pack. Oracle: positional arithmetic.
"""
import sys

from mc import common, mk
from mc.common import Stats

ENDIANS = [None, 'big', 'little', 'network', 'local']
CLASS_DEFAULTS = [None, 'big', 'little']
POSITIONS = ['alone', 'first-same', 'first-opp', 'second-same', 'second-opp']
# three-field neighbourhoods: the field under test at position 0/1/2, each neighbour one of
#   's1' Int(1) of the same byte order, 's2' Int(2) same order, 'o2' Int(2) opposite order
TRIPLES = ['%d:%s:%s' % (pos, a, b) for pos in (0, 1, 2) for a in ('s1', 's2', 'o2') for b in ('s1', 's2', 'o2')]


def eff_big(end, cdef):
    e = end if end is not None else (cdef if cdef is not None else 'big')
    if e in ('big', 'network'):
        return True
    if e == 'little':
        return False
    assert e == 'local'
    return sys.byteorder == 'big'


def ref_decode(bs, signed, big):
    n = len(bs)
    seq = bs if big else bs[::-1]
    v = 0
    for b in seq:                       # positional: sum b_i * 256^(n-1-i)
        v = v * 256 + b
    if signed and seq[0] >= 0x80:
        v -= 256 ** n
    return v


def ref_encode(v, n, signed, big):
    """bytes, or None when not representable / not an int"""
    if type(v) is not int:
        return None
    lo, hi = (-(256 ** n) // 2, 256 ** n // 2 - 1) if signed else (0, 256 ** n - 1)
    if not (lo <= v <= hi):
        return None
    u = v + 256 ** n if v < 0 else v
    out = []
    for _ in range(n):
        out.append(u % 256)
        u //= 256
    out = bytes(out)                    # little endian now
    return out[::-1] if big else out


def configs(tier):
    widths = [1, 2, 3, 4, 5, 6, 7, 8, 9] if tier == 'quick' else [1, 2, 3, 4, 5, 6, 7, 8, 9, 16, 17]
    out = []
    for n in widths:
        for signed in (False, True):
            for end in ENDIANS:
                for cdef in CLASS_DEFAULTS:
                    for pos in POSITIONS:
                        if tier == 'quick' and pos != 'alone' and cdef is not None and end not in (None, 'little'):
                            continue    # quick: the pairing matrix only for the spellings that change the default
                        for gen in (True, False):
                            out.append({'n': n, 'signed': signed, 'end': end, 'cdef': cdef, 'pos': pos, 'gen': gen})
    # the class-wide default spelled 'local' / 'network'
    for n in widths:
        for signed in (False, True):
            for cdef in ('local', 'network'):
                for gen in (True, False):
                    out.append({'n': n, 'signed': signed, 'end': None, 'cdef': cdef, 'pos': 'alone', 'gen': gen})
                    out.append({'n': n, 'signed': signed, 'end': None, 'cdef': cdef, 'pos': 'first-opp', 'gen': gen})
    # carriers: the integer is the element of a list, the subject of a condition, positioned, or lives in a referenced packet
    for n in ([1, 2, 3, 4, 8] if tier == 'quick' else [1, 2, 3, 4, 5, 8, 9]):
        for signed in (False, True):
            for end, cdef in ((None, None), ('little', None), (None, 'little'), ('big', 'little'), ('local', None), (None, 'local')):
                for car in CARRIERS:
                    for gen in (True, False):
                        out.append({'n': n, 'signed': signed, 'end': end, 'cdef': cdef, 'pos': 'C' + car, 'gen': gen})
    # triples: vectorised runs are regrouped by byte order, the grouping depends on BOTH neighbours
    for n in ([1, 2, 3, 4] if tier == 'quick' else [1, 2, 3, 4, 5, 8]):
        for signed in (False, True):
            for end, cdef in ((None, None), ('little', None), (None, 'little'), ('big', 'little'), ('local', 'big')):
                for tr in TRIPLES:
                    out.append({'n': n, 'signed': signed, 'end': end, 'cdef': cdef, 'pos': 'T' + tr, 'gen': True})
                    if tier == 'thorough':
                        out.append({'n': n, 'signed': signed, 'end': end, 'cdef': cdef, 'pos': 'T' + tr, 'gen': False})
    return out


# name -> (field lines with %s for the Int, bytes before the pattern, bytes after, read expression, keyword arguments with V for the value)
CARRIERS = {
    'seq': (['x = %s.repeated(1)'], b'', b'', 'p.x[0]', 'dict(x=[V])'),
    'seq2': (['x = %s.repeated(2)'], 'Z', b'', 'p.x[1]', 'dict(x=[0, V])'),
    'seq-al1': (['x = %s.repeated(2, aligned=1)'], 'Z', b'', 'p.x[1]', 'dict(x=[0, V])'),
    'seq-al4': (['x = %s.repeated(1, aligned=4)'], b'', b'', 'p.x[0]', 'dict(x=[V])'),
    'seq-until': (['x = %s.repeated(until=lambda **k: True)'], b'', b'', 'p.x[0]', 'dict(x=[V])'),
    'opt': (['f = Int(1)', 'x = %s.when(f)'], b'\x01', b'', 'p.x', 'dict(f=1, x=V)'),
    'at': (['x = %s.at(1)'], b'.', b'', 'p.x', 'dict(x=V)'),
    'aligned': (['f = Int(1)', 'x = %s.aligned(2)'], b'\x07.', b'', 'p.x', 'dict(f=7, x=V)'),
    'ref': (['s = Ref(Sub)'], b'', b'', 'p.s.x', 'dict(s=m.Sub(x=V))'),
    'seq-ref': (['s = Ref(Sub).repeated(1)'], b'', b'', 'p.s[0].x', 'dict(s=[m.Sub(x=V)])'),
    'opt-ref': (['f = Int(1)', 's = Ref(Sub).when(f)'], b'\x01', b'', 'p.s.x', 'dict(f=1, s=m.Sub(x=V))'),
    'data-after': (['x = %s', 'd = Data(x & 1)'], b'', 'D', 'p.x', 'dict(x=V, d=b"q" * (V & 1))'),
}


def source(cfg):
    n, signed, end = cfg['n'], cfg['signed'], cfg['end']
    big = eff_big(end, cfg['cdef'])
    args = ['%d' % n]
    if signed:
        args.append('signed=True')
    if end is not None:
        args.append('endianness=%r' % end)
    me = 'x = Int(%s)' % ', '.join(args)
    pos = cfg['pos']
    sub = ''
    if pos.startswith('C'):
        intsrc = me[4:]
        lines = [l % intsrc if '%s' in l else l for l in CARRIERS[pos[1:]][0]]
        if 'Ref(Sub)' in lines[-1]:
            o = {}
            if cfg['cdef'] is not None:
                o['endianness'] = cfg['cdef']
            if not cfg['gen']:
                o.update(mk.GEN_ALL_OFF)
            sub = mk.class_src('Sub', [me], o) + '\n\n'
    elif pos.startswith('T'):
        lines = triple_layout(cfg, me)[0]
    elif pos == 'alone':
        lines = [me]
    else:
        same = pos.endswith('same')
        nb_big = big if same else not big
        nb = 'y = Int(2, endianness=%r)' % ('big' if nb_big else 'little')
        lines = [me, nb] if pos.startswith('first') else [nb, me]
    opts = {}
    if cfg['cdef'] is not None:
        opts['endianness'] = cfg['cdef']
    if not cfg['gen']:
        opts.update(mk.GEN_ALL_OFF)
    return sub + mk.class_src('K', lines, opts)


def check_carrier(cfg, m, st, viol, big):
    n, signed = cfg['n'], cfg['signed']
    lines, pre, post, read, kws = CARRIERS[cfg['pos'][1:]]
    K = m.K
    pats = decode_patterns(n, False) if n > 1 else [bytes([a]) for a in range(256)]
    if n > 1:
        pats = pats[::5] + [b'\x01' + b'\x00' * (n - 1), b'\x00' * (n - 1) + b'\x01', b'\x80' + b'\x00' * (n - 1), b'\xff' * n, bytes(range(1, n + 1))]
    for pat in pats:
        exp = ref_decode(pat, signed, big)
        raw = (b'\x00' * n if pre == 'Z' else pre) + pat + ((b'q' * (exp & 1)) if post == 'D' else post)
        st.inc('evaluations')
        try:
            p = K.unpack(raw)
            got = eval(read, {'p': p})
        except Exception as e:
            viol('decode-raises (carried)', 'unpack(%r) raised %r' % (raw, e), {'op': 'decode', 'raw': raw})
            return
        if got != exp or type(got) is not int:
            viol('decode-value (carried)', 'unpack(%r): %s = %r, expected %r' % (raw, read, got, exp), {'op': 'decode', 'raw': raw})
            return
        try:
            out = K(**eval(kws, {'V': exp, 'm': m})).pack()
        except Exception as e:
            out = e
        if out != raw:
            viol('encode-bytes (carried)', 'K(**%s).pack() with V=%r = %r, expected %r' % (kws, exp, out, raw), {'op': 'encode', 'value': exp})
            return
    st.add('outcomes', ('c', n, signed, big, cfg['pos']))


def triple_layout(cfg, me=None):
    """(field lines, [(name, nbytes, big)] in order) of a three-field neighbourhood"""
    big = eff_big(cfg['end'], cfg['cdef'])
    where, a, b = cfg['pos'][1:].split(':')
    where = int(where)

    def nb(kind, name):
        width = 1 if kind == 's1' else 2
        nbig = big if kind[0] == 's' else not big
        return ('%s = Int(%d, endianness=%r)' % (name, width, 'big' if nbig else 'little'), (name, width, nbig))
    n1, n2 = nb(a, 'y'), nb(b, 'z')
    mine = (me, ('x', cfg['n'], big))
    order = [n1, n2]
    order.insert(where, mine)
    return [o[0] for o in order], [o[1] for o in order]


def decode_patterns(n, full2):
    if n == 1:
        return [bytes([a]) for a in range(256)]
    if n == 2 and full2:
        return [bytes([a, b]) for a in range(256) for b in range(256)]
    pats = []
    seen = set()
    for base in (0x00, 0xff, 0x80, 0x7f):
        for lane in range(n):
            for v in range(256):
                p = bytearray([base] * n)
                p[lane] = v
                p = bytes(p)
                if p not in seen:
                    seen.add(p)
                    pats.append(p)
    return pats


def encode_values(n, signed, full2):
    lo, hi = (-(256 ** n) // 2, 256 ** n // 2 - 1) if signed else (0, 256 ** n - 1)
    if n == 1 or (n == 2 and full2):
        good = list(range(lo, hi + 1))
    else:
        s = {lo, lo + 1, -1, 0, 1, hi - 1, hi}
        for k in range(1, n):
            for d in (-1, 0, 1):
                s.add(256 ** k + d)
                s.add(-(256 ** k) + d)
        good = sorted(v for v in s if lo <= v <= hi)
    bad = [lo - 1, hi + 1, 256 ** n, -(256 ** n), 1.5, 2.0, '1', b'\x01', None]
    return good, bad


def check_config(cfg, st, full2):
    from bisturi.packet import PacketError
    n, signed = cfg['n'], cfg['signed']
    big = eff_big(cfg['end'], cfg['cdef'])
    pos = cfg['pos']
    src = source(cfg)
    tag = 'n=%s gen=%s' % ('1,2,4,8' if n in (1, 2, 4, 8) else 'other', cfg['gen'])

    def viol(clause, what, extra):
        case = dict(cfg=cfg)
        case.update(extra)
        st.violate('%s %s' % (clause, tag), '%s | %s' % (what, src.replace('\n', '; ')), case,
                   mk.HEADER + src)

    with mk.World() as w:
        m = w.module(src)
        K = m.K
        st.inc('programs')
        if pos.startswith('C'):
            check_carrier(cfg, m, st, viol, big)
            return
        if pos.startswith('T'):
            check_triple(cfg, K, st, viol, big)
            return
        alone = pos == 'alone'
        first = pos.startswith('first')
        nb_big = None if alone else (big if pos.endswith('same') else not big)
        nb_bytes = b'\x12\x34'
        nb_val = None if alone else ref_decode(nb_bytes, False, nb_big)

        # ---- decode
        for pat in decode_patterns(n, full2):
            raw = pat if alone else (pat + nb_bytes if first else nb_bytes + pat)
            exp = ref_decode(pat, signed, big)
            st.inc('evaluations')
            try:
                p = K.unpack(raw)
                got = p.x
                goty = None if alone else p.y
            except Exception as e:
                viol('decode-raises', 'unpack(%r) raised %r' % (raw, e), {'op': 'decode', 'raw': raw})
                continue
            st.add('outcomes', ('d', n, signed, big, exp > 0, exp == 0))
            if got != exp or type(got) is not int:
                viol('decode-value', 'unpack(%r).x = %r, expected %r' % (raw, got, exp), {'op': 'decode', 'raw': raw})
            elif goty != nb_val:
                viol('decode-neighbour', 'unpack(%r).y = %r, expected %r' % (raw, goty, nb_val), {'op': 'decode', 'raw': raw})
        # ---- encode
        good, bad = encode_values(n, signed, full2)
        for v in good:
            exp = ref_encode(v, n, signed, big)
            expraw = exp if alone else (exp + nb_bytes if first else nb_bytes + exp)
            st.inc('evaluations')
            try:
                p = K(x=v) if alone else K(x=v, y=nb_val)
                out = p.pack()
            except Exception as e:
                viol('encode-raises', 'K(x=%r).pack() raised %r' % (v, e), {'op': 'encode', 'value': v})
                continue
            if out != expraw:
                viol('encode-bytes', 'K(x=%r).pack() = %r, expected %r' % (v, out, expraw), {'op': 'encode', 'value': v})
                continue
            try:
                back = K.unpack(out).x
            except Exception as e:
                back = e
            if back != v:
                viol('roundtrip', 'unpack(pack(%r)).x = %r' % (v, back), {'op': 'encode', 'value': v})
        for v in bad:
            st.inc('evaluations')
            try:
                p = K(x=v) if alone else K(x=v, y=nb_val)
                out = p.pack()
            except PacketError:
                st.inc('rejected')
                continue
            except Exception as e:
                viol('encode-wrong-exception', 'K(x=%r).pack() raised %s instead of PacketError' % (v, type(e).__name__), {'op': 'encode', 'value': v})
                continue
            viol('encode-accepts', 'K(x=%r).pack() returned %r instead of raising PacketError' % (v, out), {'op': 'encode', 'value': v})


def check_triple(cfg, K, st, viol, big):
    n, signed = cfg['n'], cfg['signed']
    _, layout = triple_layout(cfg, 'x')
    nbvals = {'y': (b'\x12', b'\x12\x34'), 'z': (b'\xfe', b'\xfe\xdc')}
    pats = decode_patterns(n, False) if n > 1 else [bytes([a]) for a in (0, 1, 0x7f, 0x80, 0xff)]
    if n > 1:
        pats = pats[::7] + [b'\x01' + b'\x00' * (n - 1), b'\x00' * (n - 1) + b'\x01', b'\x80' + b'\x00' * (n - 1), b'\xff' * n]
    for pat in pats:
        raw = b''
        exp = {}
        for name, width, fbig in layout:
            if name == 'x':
                raw += pat
                exp['x'] = ref_decode(pat, signed, big)
            else:
                bs = nbvals[name][width - 1]
                raw += bs
                exp[name] = ref_decode(bs, False, fbig)
        st.inc('evaluations')
        try:
            p = K.unpack(raw)
            got = {k: getattr(p, k) for k in exp}
        except Exception as e:
            viol('decode-raises (three fields)', 'unpack(%r) raised %r' % (raw, e), {'op': 'decode', 'raw': raw})
            return
        if got != exp:
            viol('decode-value (three fields)', 'unpack(%r) -> %r, expected %r' % (raw, got, exp), {'op': 'decode', 'raw': raw})
            return
        try:
            out = K(**exp).pack()
        except Exception as e:
            out = e
        if out != raw:
            viol('encode-bytes (three fields)', 'K(%r).pack() = %r, expected %r' % (exp, out, raw), {'op': 'encode', 'value': exp['x']})
            return
    st.add('outcomes', ('t', n, signed, big, cfg['pos']))


FAMILY_OPTS = [{}, {'endianness': 'little'}, {'endianness': 'big'}, {'endianness': 'little', 'annotate': False}, {'annotate': False},
               {'endianness': 'local'}, {'endianness': 'little', 'vectorize': False}, {}]


def check_family(n, signed, st):
    """one module, class K defined again and again with the SAME field lines; only __bisturi__ differs (what a
    class factory with an endianness parameter does): every one of them follows its own class-wide default"""
    line = 'x = Int(%d%s)' % (n, ', signed=True' if signed else '')
    src = ''
    for i, o in enumerate(FAMILY_OPTS):
        src += mk.class_src('K', [line, 'y = Int(2)'], o or None) + 'K__%d = K\n' % i
    pats = [bytes([1] + [0] * (n - 1)), bytes([0x80] + [0x7f] * (n - 1)), bytes(range(1, n + 1))]
    with mk.World() as w:
        m = w.module(src)
        st.inc('programs')
        for rounds in range(2):             # twice: the second round meets the cache files the first one left
            for i, o in enumerate(FAMILY_OPTS):
                K = getattr(m, 'K__%d' % i)
                big = eff_big(None, o.get('endianness'))
                for pat in pats:
                    raw = pat + (b'\x12\x34' if big else b'\x34\x12')
                    exp = (ref_decode(pat, signed, big), 0x1234)
                    st.inc('evaluations')
                    try:
                        p = K.unpack(raw)
                        got = (p.x, p.y)
                        out = K(x=exp[0], y=exp[1]).pack()
                    except Exception as e:
                        got, out = repr(e), None
                    if got != exp or out != raw:
                        st.violate('same-named classes with identical field lines: wrong byte order',
                                   'definition #%d of K (%r) in one module: unpack(%r) -> %r, expected %r; pack -> %r | %s' % (
                                       i, o, raw, got, exp, out, src.replace('\n', '; ')),
                                   {'family': [n, signed]}, mk.HEADER + src)
                        return
            if rounds == 0:
                # define the whole family once more in the same module file
                exec(compile(mk.HEADER + src, m.__file__, 'exec'), m.__dict__)
    st.add('outcomes', ('family', n, signed))


def _shard(shard, nshards, payload):
    st = Stats()
    cfgs = configs(payload['tier'])
    if payload.get('o'):
        # under python -O: every width alone (values that must be rejected on pack included) and the carried integers
        cfgs = [c for c in cfgs if c['pos'] == 'alone' or (c['pos'].startswith('C') and c['gen'])]
    for i, cfg in enumerate(cfgs):
        if i % nshards != shard:
            continue
        full2 = payload['tier'] == 'thorough' or cfg['pos'] == 'alone'
        check_config(cfg, st, full2)
        if i % 397 == common.SEED % 397:
            st.sample({'class': source(cfg), 'decode_patterns': len(decode_patterns(cfg['n'], full2))})
    fams = [(n, sg) for n in (1, 2, 3, 4, 8) for sg in (False, True)] if not payload.get('o') else []
    for i, (n, sg) in enumerate(fams):
        if i % nshards == shard:
            check_family(n, sg, st)
    return st


def run(tier):
    st = common.merge_all(common.run_sharded(_shard, {'tier': tier}))
    from mc import ea_o
    so = ea_o.run_shard('mc.props.c05', '_shard', {'tier': 'quick', 'o': True})     # every width alone and carried once more under python -O
    st.merge(so)
    st.notes.extend(so.notes)
    cov = {
        'states': st.count('outcomes'),
        'transitions': st.n.get('evaluations', 0),
        'traces_validated_against_impl': st.n.get('evaluations', 0),
        'evaluations': st.n.get('evaluations', 0),
        'distinct_nontrivial': st.count('outcomes'),
        'programs': st.n.get('programs', 0),
        'rule': 'every Int configuration (width x signed x 5 endianness spellings x 3 class defaults x 5 positions x generated/generic) as a real class; '
                'decode: all 2^(8n) patterns for n<=2, lane-exhaustive (each byte lane all 256 values, others held at 00/ff/80/7f) above; '
                'encode: all values n<=2, boundary set above, plus 9 values that must be rejected; three-field neighbourhoods (field at position 0/1/2, '
                'neighbours Int(1)/Int(2) of the same or the opposite byte order) with the lane patterns thinned; '
                'states = distinct (width, signedness, byte order, sign class of the value) outcome classes; every width alone and carried once more in child interpreters started with -O',
        'exhaustive': True,
        'bounds': {'widths': sorted({c['n'] for c in configs(tier)}), 'configs': len(configs(tier))},
        'rejected_values_checked': st.n.get('rejected', 0),
        'samples': st.samples,
    }
    return {'stats': st, 'coverage': cov, 'harness_errors': [n for n in st.notes if n.startswith('HARNESS')],
            'assumptions': ["'local' means sys.byteorder of this machine (%s)" % sys.byteorder,
                            'bool values are ints and not in the rejected set']}


def replay(case):
    st = Stats()
    if 'family' in case:
        check_family(case['family'][0], case['family'][1], st)
        return st.violations
    check_config(case['cfg'], st, True)
    return st.violations
