"""C14  Parsing depends only on the bytes it consumes.

E-A, metamorphic (the implementation is compared with itself): for every declaration without
start-of-data positioning and every accepted input r with parsed region [0,e): for every prefix u and
suffix v up to the bound over the declaration alphabet, unpack(u + r[:e] + v, len(u)) gives the same values
and unpack_impl returns len(u)+e, and so does unpack(r[:e] + v); for rejected inputs the error offsets
shift by exactly len(u).
"""
import itertools
import sys

from mc import common, ea, alphabet, ir, refsem

MODULE = 'mc.props.c14'
EXCLUDED_FEATURES = {'abs', 'class_align', 'elem_aligned', 'eos', 'nonconsume', 'rawcb'}   # a delimiter that is looked at but not consumed lies outside the region by design


def decl_specs(tier):
    specs = []
    for names, w in alphabet.declarations(tier):
        P = alphabet.make_decl(names, None, w)
        if alphabet.scan(P) & EXCLUDED_FEATURES:
            continue
        specs.append({'names': list(names), 'wrapper': w})
    for c in ('m0', 'mab', 'rx', 'sm', 'om', 'rxy', 'rxlb', 'rxwb'):
        for sbl in (2, 3):
            specs.append({'names': [c, 'i1'], 'wrapper': 'a', 'opts': {'search_buffer_length': sbl}})
            specs.append({'names': ['dn', c], 'wrapper': 'b', 'opts': {'search_buffer_length': sbl}})
    for c in ('p_atn', 'p_shm1', 'p_shm2d', 'p_atl', 'p_shn'):
        for w in 'ab':
            specs.append({'names': ['i1', c], 'wrapper': w, 'opts': {'generate_for_unpack': False}})
            specs.append({'names': [c, 'i1'], 'wrapper': w, 'opts': {'generate_for_pack': False, 'generate_for_unpack': False}})
    for c in ('i2', 'dn', 'sn', 'r1', 'b35', 'p_at3', 'rs', 'o1', 'su'):
        specs.append({'names': [c, 'i3'], 'wrapper': 'a', 'opts': {'generate_for_pack': False, 'generate_for_unpack': False}})
    for c in ('i1', 'i3', 'dn', 'm0', 'b35', 'sn', 'su', 'sr', 'o1', 'r1', 'rs', 'sdn'):
        specs.append({'names': [c], 'wrapper': 'd'})
    # every integer width in every byte-order spelling, signed and unsigned, LAST in the packet (the appended bytes follow it directly)
    # and before a plain byte: what lies behind an integer is not part of it
    for n in (1, 2, 3, 4, 5, 6, 7, 8, 9):
        for sg in 'us':
            for e in ('def', 'big', 'lit', 'loc'):
                specs.append({'names': ['x%d%s%s' % (n, e, sg)], 'wrapper': 'a'})
                if e in ('big', 'lit'):
                    specs.append({'names': ['i1', 'x%d%s%s' % (n, e, sg)], 'wrapper': 'b'})
                    specs.append({'names': ['x%d%s%s' % (n, e, sg), 'i1'], 'wrapper': 'a', 'opts': {'generate_for_unpack': False}})
    # a position given to a field BEFORE it is wrapped by .when() / .repeated() (the library may honour it or drop it - either way the
    # parse must not depend on where the packet starts when the position is relative to the packet)
    from mc.ir import PKT, I, D, S, O, F, C, pos
    for tag, inner in (('aligned-innermost data', pos(D(C(2)), 'aligned', C(4), ref='innermost-pkt')), ('aligned-innermost int', pos(I(1), 'aligned', C(2), ref='innermost-pkt')),
                       ('at int', pos(I(1), 'at', C(3))), ('shift data', pos(D(C(1)), 'shift', C(1)))):
        specs.append({'P': PKT('K', [('t', I(1)), ('o', O(inner, F('t'))), ('z', I(1))]), 'tag': 'inner position, optional: ' + tag})
        specs.append({'P': PKT('K', [('n', I(1)), ('l', S(inner, F('n'))), ('z', I(1))]), 'tag': 'inner position, repeated: ' + tag})
        specs.append({'P': PKT('W', [('pre', I(1)), ('body', ir.R(PKT('K', [('t', I(1)), ('o', O(inner, F('t'))), ('z', I(1))])))]), 'tag': 'inner position, nested optional: ' + tag})
    for sp in alphabet.boundary_specs() + alphabet.structure_specs():
        # the same by-design exclusions (an absolute alignment of the holder makes the parse depend on where it starts)
        P = sp['P'] if 'P' in sp else alphabet.make_decl(sp['names'], sp.get('opts'), sp.get('wrapper', 'a'), wopts=sp.get('wopts'))
        if not (alphabet.scan(P) & EXCLUDED_FEATURES):
            specs.append(sp)
    return specs


def affixes(syms, maxlen):
    out = [b'']
    for n in range(1, maxlen + 1):
        out.extend(bytes(t) for t in itertools.product(syms, repeat=n))
    return out


class Buf(bytes):
    """a raw input that is a SUBCLASS of bytes (like bisturi.util.SeekableFile): the library accepts it wherever it accepts bytes"""


def views(x):
    """the same bytes as instances of bytes subclasses: one that keeps its content, and the library's own file-backed
    bisturi.util.SeekableFile, whose content is only reachable through its overridden slicing"""
    import io
    out = [('a bytes subclass', Buf(x))]
    if x:
        from bisturi.util import SeekableFile
        out.append(('bisturi.util.SeekableFile', SeekableFile(io.BytesIO(x))))
    return out


def observe(dc, raw, start):
    """('ok', values, end) | ('err', shifted stack) | ('exc', type)"""
    u = ea.impl_unpack(dc.K, raw, start)
    if u[0] == 'ok':
        try:
            end = ea.impl_end(dc.K, raw, start)
        except Exception as e:
            end = repr(e)
        return ('ok', ir.extract(u[1], dc.P, dc.pkts), end)
    if u[0] == 'err':
        return ('err', [(o, n, c) for o, n, c in u[1].fields_stack])
    return ('exc', type(u[1]).__name__)


def check_one(dc, st, raw, r, maxaff):
    st.inc('evaluations')
    if len(raw) > 48:
        maxaff = 1          # the long ladder inputs: one-byte prefixes and suffixes (the cost is per byte of input)
    base = observe(dc, raw, 0)
    srcline = dc.src.replace('\n', '; ')
    syms = dc.syms
    backwards = 'backwards' in dc.feats
    if base[0] == 'ok':
        st.inc('accepted')
        e = base[2]
        if not isinstance(e, int) or e < 0 or e > len(raw):
            return
        if r[0] != 'ok' or ir.extract(ea.impl_unpack(dc.K, raw)[1], dc.P, dc.pkts) != r[1].pv:
            # the reference does not vouch for this parse, so the region is unknown - but whatever was parsed, the SAME bytes parsed
            # behind a prefix (at the start offset len(prefix)) must give the same values, every offset shifted by the prefix
            st.inc('disagree')
            if not backwards and 'abs' not in dc.feats:
                for u in affixes(syms, 1)[1:]:
                    st.inc('transitions')
                    got = observe(dc, u + raw, len(u))
                    want = ('ok', base[1], len(u) + e)
                    if got != want:
                        st.violate('unpack depends on prefix bytes',
                                   '%s.unpack(%r, %d) -> %r but %s.unpack(%r) -> %r | %s' % (dc.P['name'], u + raw, len(u), got, dc.P['name'], raw, base, srcline),
                                   dc.case(raw=raw), dc.snippet('print(%s.unpack(%r, %d))\nprint(%s.unpack(%r))' % (dc.P['name'], u + raw, len(u), dc.P['name'], raw)))
                        return
            return
        hw = max(e, r[1].high)          # positioned fields may have read beyond the final cursor
        region = raw[:hw]
        ends_in_regex = hw in r[1].regex_ends
        st.add('states', (tuple(dc.spec.get('names', ())), dc.spec.get('wrapper'), 'ok', e, ends_in_regex))
        for u in affixes(syms, maxaff):
            if backwards and u:
                rr = ea.ref_parse(dc.P, u + region, len(u))
                if rr[0] == 'ok' and any(lo < len(u) for lo, hi, _ in rr[1].consumed):
                    continue            # the declaration itself consumes bytes before the offset
                if rr[0] != 'ok':
                    continue
            for v in affixes(syms, maxaff):
                if v and ends_in_regex:
                    continue
                if not u and not v and region == raw:
                    continue
                st.inc('transitions')
                x = u + region + v
                got = observe(dc, x, len(u))
                want = ('ok', base[1], len(u) + e)
                given = ''
                if got == want and not v and u == bytes(syms[:1]):
                    for vname, view in views(x):            # the same bytes as an instance of a bytes subclass (one prefix per input)
                        if got == want:
                            got = observe(dc, view, len(u))
                            given = ' [the first argument given as %s]' % vname
                if got != want:
                    kind = 'prefix' if (u and not v) else ('suffix' if (v and not u) else ('both' if u else 'cut-tail'))
                    st.violate('unpack depends on %s bytes' % kind,
                               '%s.unpack(%r, %d)%s -> %r but %s.unpack(%r) -> %r (region end %d) | %s' % (
                                   dc.P['name'], x, len(u), given, got, dc.P['name'], raw, base, e, srcline),
                               dc.case(raw=raw), dc.snippet('print(%s.unpack(%r, %d))\nprint(%s.unpack(%r))' % (dc.P['name'], x, len(u), dc.P['name'], raw)))
                    return
    elif base[0] == 'err':
        st.inc('rejected')
        st.add('states', (tuple(dc.spec.get('names', ())), dc.spec.get('wrapper'), 'err', base[1][0][0]))
        for u in affixes(syms, maxaff)[1:]:
            if backwards:
                continue
            st.inc('transitions')
            got = observe(dc, u + raw, len(u))
            want = ('err', [(o + len(u), n, c) for o, n, c in base[1]])
            given = ''
            if got == want and u == bytes(syms[:1]):
                for vname, view in views(u + raw):          # the same bytes as an instance of a bytes subclass (one prefix per input)
                    if got == want:
                        got = observe(dc, view, len(u))
                        given = ' [the first argument given as %s]' % vname
            if got != want:
                st.violate('error offsets do not shift with the start offset',
                           '%s.unpack(%r, %d)%s -> %r but %s.unpack(%r) -> %r | %s' % (dc.P['name'], u + raw, len(u), given, got, dc.P['name'], raw, base, srcline),
                           dc.case(raw=raw), dc.snippet('%s.unpack(%r, %d)' % (dc.P['name'], u + raw, len(u))))
                return


def check_decl(dc, st, tier, only=None):
    # two-byte prefixes and suffixes (1849 combinations per accepted input) for the single-component declarations of the thorough tier only
    maxaff = 2 if (tier == 'thorough' and len(dc.spec.get('names', ())) == 1) else 1
    if only is not None:
        dc.syms, dc.L = alphabet.input_set(dc.P, dc.seed, 300)
        check_one(dc, st, only['raw'], ea.ref_parse(dc.P, only['raw']), 2)
        return
    budget = 300 if tier == 'quick' else 800
    for raw, r in ea.inputs_for(dc, budget, ext=False):
        check_one(dc, st, raw, r, maxaff)


def run(tier):
    st = ea.run(MODULE, tier)
    LADDER_NOTE = '; plus the shared size and structure ladders (mc/alphabet.py boundary_specs / structure_specs): lengths and counts 5, 8, 9, 16, 17, 32, 33, 64, 65, 128, 129, 255, 256, 257, 1024, 1025, 4096, 4097, 8192, 8193 behind one-, two- and three-byte length fields with their exact encodings (and the same cut short), constant counts and sizes 15..257 first in a packet, far positions (holes of 255..8192 bytes), chains of 4..8 references, lists of lists of lists, nine-byte integers, bit runs of 40/72/80 bits, declarations of 24 components and runs of 17..40 fixed fields, holders whose options differ from the held class, the nested class alone on the field-by-field loop'
    cov = ea.coverage(st, 'every declaration of the alphabet without start-of-data positioning / class align / element alignment / read-to-end; for every '
                          'input of the enumeration: accepted -> all (prefix, suffix) pairs of length <=%d (two for the single-component declarations of the thorough tier, one elsewhere and for inputs longer than 48 bytes) over the declaration alphabet (which contains its '
                          'markers and count bytes), suffixes skipped when the region ends in a regex delimiter; rejected -> all prefixes, error offsets must '
                          'shift; one prefixed input per case once more as a bytes subclass and as the file-backed bisturi.util.SeekableFile; states = distinct (declaration, outcome, region end / error offset)' % (1 if tier == 'quick' else 2))
    cov['transitions'] = st.n.get('transitions', 0)
    cov['traces_validated_against_impl'] = st.n.get('transitions', 0) + st.n.get('evaluations', 0)
    cov['rule'] += LADDER_NOTE
    return {'stats': st, 'coverage': cov,
            'assumptions': ['the reference interpreter is used only to decide scope (extent of the parsed region when positioned fields read beyond the final cursor; region ends in a regex match; a negative shift consumes bytes before the offset)']}


def replay(case):
    return ea.replay_decl(sys.modules[__name__], case)
