"""C18  The regexp pre-filter never rejects a matching packet.

E-A: all flat declarations of <=2 (thorough <=3) components over Int, Bits runs and Data in every sizing
mode; for each, every subset of fields is fixed to the values of a concrete packet (values parsed from the
corpus, including bytes that are regex metacharacters) and the rest left as Any(); building the regular
expression must not raise, every corpus string that unpacks to a packet equal to the pattern must match
it, and filter() must return the same packets with and without the regexp pre-filter.
"""
import itertools
import sys

from mc import common, ea, alphabet, ir, mk
from mc.common import Stats
from mc.ir import PKT, I, D, DM, DR, DEOS, B, F, C, BIN

MODULE = 'mc.props.c18'
META = [0x5c, 0x5d, 0x5e, 0x5f, 0x2d, 0x2e, 0x0a, 0x5b, 0x24, 0x2a, 0x28]      # \ ] ^ _ - . \n [ $ * (


def comps():
    c = {}
    c['i1'] = lambda i: [('a%d' % i, I(1))]
    c['i2'] = lambda i: [('a%d' % i, I(2))]
    c['i3s'] = lambda i: [('a%d' % i, I(3, signed=True, end='little'))]
    c['i1s'] = lambda i: [('a%d' % i, I(1, signed=True))]
    c['i2s'] = lambda i: [('a%d' % i, I(2, signed=True))]
    c['b35'] = lambda i: [('p%d' % i, B(3)), ('q%d' % i, B(5))]
    c['b44'] = lambda i: [('p%d' % i, B(4)), ('q%d' % i, B(4))]
    c['b17'] = lambda i: [('p%d' % i, B(1)), ('q%d' % i, B(7))]
    c['b71'] = lambda i: [('p%d' % i, B(7)), ('q%d' % i, B(1))]
    c['bc4'] = lambda i: [('p%d' % i, B(12)), ('q%d' % i, B(4))]
    c['b323'] = lambda i: [('p%d' % i, B(3)), ('q%d' % i, B(2)), ('r%d' % i, B(3))]
    c['d2'] = lambda i: [('d%d' % i, D(C(2)))]
    c['dn'] = lambda i: [('n%d' % i, I(1)), ('d%d' % i, D(F('n%d' % i)))]
    c['dx'] = lambda i: [('n%d' % i, I(1)), ('d%d' % i, D(BIN('mul', F('n%d' % i), C(2))))]
    c['dl'] = lambda i: [('n%d' % i, I(1)), ('d%d' % i, D(BIN('add', F('n%d' % i), C(1)), sp='lambda'))]
    c['dxx'] = lambda i: [('t%d' % i, I(1)), ('w%d' % i, I(1)), ('d%d' % i, D(BIN('sub', F('t%d' % i), BIN('mul', F('w%d' % i), C(2)))))]
    # a size that is a truth value: one byte present iff the condition holds (True counts as 1)
    c['db'] = lambda i: [('n%d' % i, I(1)), ('d%d' % i, D(BIN('gt', F('n%d' % i), C(1))))]
    c['dbl'] = lambda i: [('n%d' % i, I(1)), ('d%d' % i, D(BIN('eq', F('n%d' % i), C(2)), sp='lambda'))]
    c['m0'] = lambda i: [('d%d' % i, DM(b'\x00'))]
    c['m0i'] = lambda i: [('d%d' % i, DM(b'\x00', incl=True))]
    c['mab'] = lambda i: [('d%d' % i, DM(b'.b'))]
    c['rxi'] = lambda i: [('d%d' % i, DR(b'X+', incl=True))]
    c['eos'] = lambda i: [('d%d' % i, DEOS())]
    return c


COMPS = comps()


def decl_specs(tier):
    names = list(COMPS)
    specs = [{'c18': [a]} for a in names]
    specs += [{'c18': [a, b]} for a in names for b in names if a != 'eos']
    if tier == 'thorough':
        red = ['i1', 'b35', 'b17', 'dn', 'dx', 'm0', 'mab', 'rxi', 'd2']
        specs += [{'c18': [a, b, c]} for a in red for b in red for c in red + ['eos']]
    for names in (['bc4'], ['bc4', 'i2'], ['i2', 'b323'], ['b35', 'bc4'], ['i3s', 'bc4']):
        specs.append({'c18': names, 'opts': {'endianness': 'little'}})
    # every byte-order spelling, per field and class-wide, on widths with and without a struct code
    for n in (2, 3, 4):
        for e in ('big', 'little', 'network', 'local'):
            for sg in (False, True):
                specs.append({'c18': ['i1'], 'extra': [('w', I(n, signed=sg, end=e))]})
            specs.append({'c18': ['b35'], 'extra': [('w', I(n))], 'opts': {'endianness': e}})
    # long literals: a constant-size byte string of 31..257 bytes between two integers; the corpus holds values full of
    # regex metacharacters (in the first bytes, in the last bytes, everywhere) and plain ones
    for N in (31, 32, 33, 34, 40, 64, 65, 255, 256, 257):
        corpus = []
        for body in (b'a' * N, b'.' * N, (b'a.-(' * N)[:N], b'a' * (N - 2) + b'\\$', b'/var/log/app.d/node-01/2024-01-0'.ljust(N, b'x')[:N], bytes((i % 94) + 33 for i in range(N))):
            for z in (b'\x00\x07', b'\x01\x02'):
                corpus.append(b'\x05' + body + z)
                corpus.append(b'\x05' + body + z + b'tail')
        specs.append({'c18': [], 'extra': [('a', I(1)), ('d', D(C(N))), ('z', I(2))], 'corpus': corpus})
    for s in specs:
        fields = []
        for i, cn in enumerate(s['c18']):
            fields.extend(COMPS[cn](i))
        fields.extend(s.get('extra', []))
        s['P'] = PKT('K', fields, **s.get('opts', {}))
    return specs


def corpus_for(dc, tier):
    if dc.spec.get('corpus'):
        return list(dc.spec['corpus'])
    base = [0, 1, 2]
    for b in sorted(alphabet.marker_bytes(dc.P)):
        if b not in base:
            base.append(b)
    base = base[:5]
    L1 = 4 if tier == 'quick' else 5
    L2 = 2 if tier == 'quick' else 3
    out = list(alphabet.all_strings(base, L1))
    seen = set(out)
    # negative values of signed integers: bytes with the top bit set
    neg = [0xff, 0x80] if 'signed' in alphabet.scan(dc.P) else []
    for s in alphabet.all_strings(base[:2] + neg, L1):
        if neg and s not in seen:
            seen.add(s)
            out.append(s)
    for s in alphabet.all_strings(base[:2] + META, L2):
        if s not in seen:
            seen.add(s)
            out.append(s)
    # one metacharacter in a longer string, at every position
    for m in META:
        for n in (3, 4):
            for pos in range(n):
                for fill in base[:2]:
                    s = bytes([fill] * pos + [m] + [fill] * (n - pos - 1))
                    if s not in seen:
                        seen.add(s)
                        out.append(s)
    return out


def check_decl(dc, st, tier, only=None):
    from bisturi.pattern_matching import anything_like, Any
    import bisturi.pattern_matching as pm
    K = dc.K
    srcline = dc.src.replace('\n', '; ')
    names = ir.value_fields(dc.P)
    corpus = corpus_for(dc, tier)
    unpacked = []
    for s in corpus:
        p = K.unpack(s, silent=True)
        unpacked.append(p)
    # concrete assignments: distinct parsed packets, meta-valued ones first
    vals, seen = [], set()
    # concrete assignments: for EVERY metacharacter byte the first parsed packet whose input starts with it
    # (so that every fixed-bits / literal escape path sees every metacharacter), then the plainest ones
    order = []
    for m in META:
        for i in sorted(range(len(corpus)), key=lambda i: (len(corpus[i]), corpus[i])):
            if corpus[i][:1] == bytes([m]) and unpacked[i] is not None:
                order.append(i)
                break
    # negative values of signed integers: for each of the first three positions the first parsed packet with 0xff / 0x80 there
    nneg = 0
    if 'signed' in alphabet.scan(dc.P):
        for m in (0xff, 0x80):
            for pos in range(3):
                for i in sorted(range(len(corpus)), key=lambda i: (len(corpus[i]), corpus[i])):
                    if corpus[i][pos:pos + 1] == bytes([m]) and unpacked[i] is not None and i not in order:
                        order.append(i)
                        nneg += 1
                        break
    order += sorted(range(len(corpus)), key=lambda i: (len(corpus[i]), corpus[i]))
    cap = len(META) + nneg + (2 if tier == 'quick' else 8)
    for i in order:
        p = unpacked[i]
        if p is None:
            continue
        v = tuple((n, getattr(p, n)) for n in names)
        if v in seen:
            continue
        seen.add(v)
        vals.append(dict(v))
        if len(vals) >= cap:
            break
    if only is not None:
        vals = [only['values']]
        subsets = [tuple(only['fixed'])]
    else:
        subsets = [sub for k in range(0, len(names) + 1) for sub in itertools.combinations(names, k)]
    npat = 0
    for vi, v in enumerate(vals if vals else [{}]):
        for sub in subsets:
            if not v and sub:
                continue
            if vi > 0 and not sub:
                continue
            st.inc('evaluations')
            npat += 1
            case = dc.case(values=v, fixed=list(sub))
            what = 'anything_like(K) with %s' % ', '.join('%s=%r' % (n, v[n]) for n in sub)
            snip = dc.snippet('from bisturi.pattern_matching import anything_like\np = anything_like(K)\n%s\nprint(p.as_regular_expression().pattern)' %
                              '\n'.join('p.%s = %r' % (n, v[n]) for n in sub))
            pat = anything_like(K)
            for n in sub:
                setattr(pat, n, v[n])
            anyfields = [n for n in names if n not in sub]
            kinds = sorted({ea.node_kind(node) for n, node in dc.P['fields'] if n in anyfields})
            try:
                rx = pat.as_regular_expression()
            except Exception as e:
                st.violate('building the expression raises %s' % type(e).__name__,
                           '%s: as_regular_expression() raised %r | %s' % (what, e, srcline), case, snip)
                continue
            st.add('states', (tuple(dc.spec['c18']), repr(dc.spec.get('opts')), sub, bytes(rx.pattern)))
            # building the expression evaluates size expressions on placeholder values (and swallows what they
            # raise): parsing must be undisturbed by it
            for s0, p0 in list(zip(corpus, unpacked))[:40]:
                if p0 is None or len(s0) < 2:
                    continue
                again = K.unpack(s0, silent=True)
                if again is None or any(getattr(again, n) != getattr(p0, n) for n in names):
                    st.violate('building the expression disturbs later parsing', '%s: after as_regular_expression(), unpack(%r) gives %r | %s' % (
                        what, s0, again and [getattr(again, n) for n in names], srcline), dict(case, raw=s0), snip)
                    break
                break
            nmatch = 0
            for s, p in zip(corpus, unpacked):
                if p is None:
                    continue
                st.inc('transitions')
                try:
                    eq = (pat == p)
                except Exception as e:
                    st.violate('pattern comparison raises', '%s == unpack(%r) raised %r | %s' % (what, s, e, srcline), case, snip)
                    break
                if eq:
                    nmatch += 1
                    if not rx.match(s):
                        fixed_kinds = sorted({ea.node_kind(node) for n, node in dc.P['fields'] if n in sub})
                        st.violate('pre-filter rejects a matching packet (fixed: %s; Any: %s)' % (','.join(fixed_kinds), ','.join(kinds)),
                                   '%s: %r unpacks to an equal packet but the expression %r does not match it | %s' % (what, s, rx.pattern, srcline),
                                   dict(case, raw=s), snip + '\nprint(p.as_regular_expression().match(%r), K.unpack(%r) == p)' % (s, s))
                        break
            st.add('outcomes', (len(sub), nmatch > 0))
            if vi < 2 or only is not None:
                small = corpus[:400]
                try:
                    with_rx = [ir.extract(x, dc.P, dc.pkts) for x in pm.filter(pat, small, filter_with_regexp_first=True)]
                    without = [ir.extract(x, dc.P, dc.pkts) for x in pm.filter(pat, small, filter_with_regexp_first=False)]
                except Exception as e:
                    st.violate('filter raises', '%s: filter() raised %r | %s' % (what, e, srcline), case, snip)
                    continue
                st.inc('filters')
                # the candidates as a one-shot iterator (a stream of records) instead of a list: nothing may get lost on the way
                if vi > 0 and len(names) > 4 and only is None:
                    streamed = with_rx          # (long declarations: the first value assignment only)
                else:
                    try:
                        streamed = [ir.extract(x, dc.P, dc.pkts) for x in pm.filter(pat, iter(small), filter_with_regexp_first=True)]
                    except Exception as e:
                        streamed = repr(e)
                if streamed != with_rx:
                    st.violate('filter over an iterator differs from filter over a list', '%s: filter() over iter(candidates) returns %s, over the list %d packets | %s' % (
                        what, ('%d packets' % len(streamed)) if isinstance(streamed, list) else streamed, len(with_rx), srcline), case, snip)
                    continue
                if with_rx != without:
                    st.violate('filter differs with the pre-filter', '%s: filter() returns %d packets with the regexp pre-filter and %d without | %s' % (
                        what, len(with_rx), len(without), srcline), case, snip)
    # ---- ONE pattern object used again and again: every field fixed, then relaxed to Any() one by one (in declaration order and in
    #      reverse), then fixed again one by one; after every change filter() with the pre-filter must return what it returns without
    if only is None or only.get('chain') is not None:
        small = corpus[:400]
        for vi, v in enumerate((vals[:2] if len(names) <= 4 else vals[:1]) if only is None else [only['values']]):
            for direction in ((1, -1) if only is None else (only['chain'],)):
                pat = anything_like(K)
                order_n = list(names)[::direction]
                steps = [('fix', n) for n in order_n] + [('relax', n) for n in order_n] + [('fix', n) for n in order_n[::-1]]
                done = []
                for what, n in steps:
                    setattr(pat, n, v[n] if what == 'fix' else Any())
                    done.append('%s %s' % (what, n))
                    st.inc('evaluations')
                    st.inc('pattern_reuse_steps')
                    try:
                        with_rx = [ir.extract(x, dc.P, dc.pkts) for x in pm.filter(pat, small, filter_with_regexp_first=True)]
                        without = [ir.extract(x, dc.P, dc.pkts) for x in pm.filter(pat, small, filter_with_regexp_first=False)]
                    except Exception as e:
                        st.violate('filter raises (pattern reused)', 'one pattern object, %s: filter() raised %r | %s' % (', '.join(done), e, srcline),
                                   dc.case(values=v, fixed=[], chain=direction))
                        break
                    if with_rx != without:
                        st.violate('filter differs with the pre-filter (pattern reused)',
                                   'one pattern object of values %r, after %s: filter() returns %d packets with the regexp pre-filter and %d without | %s' % (
                                       v, ', '.join(done), len(with_rx), len(without), srcline), dc.case(values=v, fixed=[], chain=direction))
                        break
    st.inc('patterns', npat)
    dc.syms, dc.L = ('corpus', len(corpus))


def run(tier):
    st = ea.run(MODULE, tier)
    from mc import sched_c18
    th = sched_c18.run(tier)           # two threads deriving expressions at the same time
    st.merge(th)
    st.notes.extend(th.notes)
    cov = ea.coverage(st, 'flat declarations of <=%d components over Int(1), Int(2), Int(3 signed little), Bits runs 3+5/4+4/1+7/7+1/12+4/3+2+3, Data constant/by field/'
                          'by expression/by callable/bytes marker (incl. a marker containing ".")/marker kept/regex kept/EOS; patterns = concrete packets parsed from the '
                          'corpus (metacharacter-valued first) x every subset of fixed fields; corpus = all strings up to the bound over the base alphabet and '
                          'over regex metacharacters (\\ ] ^ - . \\n [ $ * ( ) plus one metacharacter at every position of longer strings; '
                          'the candidates also as a one-shot iterator; ONE pattern object reused: all fields fixed one by one, relaxed to Any() one by one, fixed again (both directions), filter() with and without the pre-filter after every change; states = distinct (declaration, fixed subset, generated expression); threads: all schedules with <=%d preemption(s) of two threads '
                          'that each derive the expression of their own pattern and apply it to a corpus (two pattern pairs), scheduling points = source '
                          'lines inside bisturi' % (2 if tier == 'quick' else 3, 1 if tier == 'quick' else 2),
                      {'patterns': st.n.get('patterns', 0), 'filter_comparisons': st.n.get('filters', 0), 'thread_schedules': st.n.get('thread_schedules', 0),
                       'thread_scheduling_points': st.n.get('thread_points', 0)})
    return {'stats': st, 'coverage': cov, 'harness_errors': [n for n in st.notes if n.startswith('HARNESS')], 'assumptions': ['byte strings ended by a regex delimiter that is not kept in the value are excluded by the statement']}


def replay(case):
    if 'schedule' in case:
        from mc import sched_c18
        return sched_c18.replay(case)
    return ea.replay_decl(sys.modules[__name__], case)
