"""C02  Serialize-then-parse reproduces the packet.

E-A: the value assignments are all distinct values the reference parses from the input enumeration
(boundary integers, empty lists, absent optionals, nested packets come for free). Each is built by
constructor keywords and by attribute assignment; pack() must equal the reference encoding, and - when
the reference itself round-trips that encoding - unpack must consume it entirely and give the same
values, assert_consistency() is True and the packet is left unchanged.
"""
import sys

from mc import common, ea, alphabet, ir, refsem

MODULE = 'mc.props.c02'
EXCLUDED = {'rxnk', 'rx1nk'}     # the value does not determine a regex delimiter that is not kept


def optimized_specs(tier):
    """every component alone, once more under python -O (assert statements stripped)"""
    return [{'names': [c], 'wrapper': 'a'} for c in alphabet.COMPONENTS if c not in globals().get('EXCLUDED', ())]


def decl_specs(tier):
    from mc.props import c01
    comps = [c for c in alphabet.COMPONENTS if c not in EXCLUDED]
    specs = []
    for names, w in alphabet.declarations(tier, comps=comps):
        specs.append({'names': list(names), 'wrapper': w})
    later = [repr(x) for x in alphabet.families() + alphabet.boundary_specs() + alphabet.structure_specs()]
    for s in c01.decl_specs('quick'):
        # every declaration with class options of the parse check (byte order, alignment, search window incl. 0 = unlimited)
        if s.get('opts') and not (set(s['names']) & EXCLUDED) and repr(s) not in later:
            specs.append(s)
    for c in ('i1', 'i3', 'dn', 'm0', 'b35', 'sn', 'su', 'sr', 'o1', 'r1', 'rs', 'sdn'):
        specs.append({'names': [c], 'wrapper': 'd'})
    specs.extend(alphabet.families())
    specs.extend(alphabet.boundary_specs())
    specs.extend(alphabet.structure_specs())
    return specs


def check_value(dc, st, pv, how, reuse=None, prev=None):
    st.inc('evaluations')
    srcline = dc.src.replace('\n', '; ')
    try:
        exp, _ = refsem.encode(dc.P, pv, dc.pkts)
    except refsem.Fail:
        st.inc('not_encodable')
        return
    except refsem.OutOfScope:
        st.inc('oos')
        return
    try:
        rr = refsem.parse(dc.P, exp)
        ref_roundtrips = rr.pv == pv and rr.end == len(exp)
    except (refsem.Fail, refsem.OutOfScope):
        ref_roundtrips = False
    build = 'ir.construct(...)'
    try:
        p = ir.construct(dc.mod, dc.P, pv, {'reuse': 'attr', 'reuse-auto': 'auto'}.get(how, how), reuse=reuse)
    except Exception as e:
        st.violate('construct-raises', 'building %r (%s) raised %r | %s' % (pv, how, e, srcline), dc.case(pv=pv.tojson(), how=how, prev=prev))
        return
    call = '%s [%s]' % (ir.value_src(pv), how)
    if prev is not None:
        call += ' on a packet that held %s and was packed' % ir.value_src(ir.val_fromjson(prev))
    got0 = ir.extract(p, dc.P, dc.pkts)
    if got0 != pv:
        st.violate('construct-values', '%s holds %r | %s' % (call, got0, srcline), dc.case(pv=pv.tojson(), how=how, prev=prev), dc.snippet('print(%s)' % ir.value_src(pv)))
        return
    out = ea.impl_pack(p)
    st.add('states', (tuple(dc.spec.get('names', ())), dc.spec.get('wrapper'), repr(dc.spec.get('opts')), ref_roundtrips, out[0], len(exp)))
    st.add('outcomes', (ref_roundtrips, out[0]))
    if out[0] != 'ok' or out[1] != exp:
        shown = out[1] if out[0] == 'ok' else getattr(out[1], 'original_error_message', out[1])
        st.violate('pack-bytes', '%s.pack() -> %r, expected %r | %s' % (call, shown, exp, srcline), dc.case(pv=pv.tojson(), how=how, prev=prev),
                   dc.snippet('print(%s.pack())' % ir.value_src(pv)))
        return
    if ir.extract(p, dc.P, dc.pkts) != pv:
        st.violate('pack-mutates', '%s changed by pack() to %r | %s' % (call, ir.extract(p, dc.P, dc.pkts), srcline), dc.case(pv=pv.tojson(), how=how, prev=prev))
        return
    if not ref_roundtrips:
        st.inc('ref_nonroundtrip')
        return
    st.inc('accepted')
    u = ea.impl_unpack(dc.K, exp)
    if u[0] != 'ok':
        st.violate('reparse-fails', 'unpack(%s.pack() = %r) raised %s | %s' % (call, exp, getattr(u[1], 'original_error_message', u[1]), srcline),
                   dc.case(pv=pv.tojson(), how=how, prev=prev), dc.snippet('print(%s.unpack(%r))' % (dc.P['name'], exp)))
        return
    got = ir.extract(u[1], dc.P, dc.pkts)
    if got != pv:
        st.violate('reparse-values', 'unpack(%s.pack() = %r) -> %r | %s' % (call, exp, got, srcline), dc.case(pv=pv.tojson(), how=how, prev=prev),
                   dc.snippet('print(%s.unpack(%r))' % (dc.P['name'], exp)))
        return
    try:
        end = ea.impl_end(dc.K, exp)
    except Exception as e:
        end = e
    if end != len(exp):
        st.violate('reparse-end', 'unpack_impl(%r) returned %r, not %d | %s' % (exp, end, len(exp), srcline), dc.case(pv=pv.tojson(), how=how, prev=prev))
        return
    try:
        cons = p.assert_consistency()
    except Exception as e:
        cons = e
    if cons is not True:
        st.violate('assert-consistency', '%s.assert_consistency() -> %r | %s' % (call, cons, srcline), dc.case(pv=pv.tojson(), how=how, prev=prev))
        return
    if ir.extract(p, dc.P, dc.pkts) != pv:
        st.violate('packet-mutated', '%s changed to %r | %s' % (call, ir.extract(p, dc.P, dc.pkts), srcline), dc.case(pv=pv.tojson(), how=how, prev=prev))


def check_decl(dc, st, tier, only=None):
    if only is not None:
        reuse = None
        if only.get('prev') is not None:
            reuse = ir.construct(dc.mod, dc.P, ir.val_fromjson(only['prev']), 'auto' if only['how'] == 'reuse-auto' else 'attr')
            ea.impl_pack(reuse)
        check_value(dc, st, ir.val_fromjson(only['pv']), only['how'], reuse=reuse, prev=only.get('prev'))
        return
    budget = ea.budget_for(dc, tier)
    seen = set()
    carry = carry_auto = None
    for raw, r in ea.inputs_for(dc, budget):
        # rejected inputs are parsed too: a failed parse in between must not disturb the round trips that follow
        try:
            dc.K.unpack(raw, silent=True)
        except Exception:
            pass
        if r[0] != 'ok':
            continue
        key = repr(r[1].pv)
        if key in seen:
            continue
        seen.add(key)
        check_value(dc, st, r[1].pv, 'kw')
        check_value(dc, st, r[1].pv, 'attr')
        if carry is not None:
            # a packet that held the PREVIOUS value and was packed is given the new values attribute by attribute
            check_value(dc, st, r[1].pv, 'reuse', reuse=carry[0], prev=carry[1])
        if carry_auto is not None:
            # the same with the described fields left to their computation on both sides
            check_value(dc, st, r[1].pv, 'reuse-auto', reuse=carry_auto[0], prev=carry_auto[1])
        carry = carry_auto = None
        try:
            c0 = ir.construct(dc.mod, dc.P, r[1].pv, 'attr')
            if ea.impl_pack(c0)[0] == 'ok':
                carry = (c0, r[1].pv.tojson())
            if 'described' in dc.feats:
                c1 = ir.construct(dc.mod, dc.P, r[1].pv, 'auto')
                if ea.impl_pack(c1)[0] == 'ok':
                    carry_auto = (c1, r[1].pv.tojson())
        except Exception:
            pass
        if 'seq' in dc.feats:
            check_value(dc, st, r[1].pv, 'inplace')
            # a packet constructed AFTER another one filled its lists in place starts from the declared defaults
            d = refsem.defaults(dc.P)
            try:
                got = ir.extract(dc.K(), dc.P, dc.pkts)
            except Exception as e:
                got = e
            if got != d:
                st.violate('defaults polluted by in-place filling', 'after %s was filled in place a fresh %s() holds %r, declared defaults %r | %s' % (
                    ir.value_src(r[1].pv), dc.P['name'], got, d, dc.src.replace('\n', '; ')), dc.case(pv=r[1].pv.tojson(), how='inplace'))
    dflt = refsem.defaults(dc.P)
    if repr(dflt) not in seen:
        check_value(dc, st, dflt, 'kw')
    st.inc('value_sets', len(seen))


NESTED_SRC = '''
class Body(Packet):
    n = Int(1)
    d = Data(n)


class Msg(Packet):
    __bisturi__ = OPTS
    kind = Int(1)
    # the length field holds the SERIALIZED size of the body: computing it packs the body while the message is being packed
    length = Int(2).describe(Auto(lambda pkt: len(pkt.body.pack())))
    body = Ref(Body)
    crc = Int(1).describe(Auto(lambda pkt: sum(pkt.body.pack()) & 0xff))


class Env(Packet):
    __bisturi__ = OPTS
    h = Int(1)
    msg = Ref(Msg)
    msgs = Ref(Msg).repeated(h)
    t = Int(1)
'''


def check_nested_pack(st, opts):
    """pack() calls nest: a described field whose computation serializes a sub-packet runs a complete pack() in the middle of the
    holder's. Every value assignment over small bodies, flat / inside a holder / inside a list: exact bytes (hand-written
    encoding), reparse identity, a second pack() gives the same bytes."""
    from mc import mk
    src = 'OPTS = %r\n' % (opts,) + NESTED_SRC

    def enc_body(d):
        return bytes([len(d)]) + d

    def enc_msg(kind, d):
        b = enc_body(d)
        return bytes([kind]) + len(b).to_bytes(2, 'big') + b + bytes([sum(b) & 0xff])
    bodies = [b'', b'a', b'hi\x00', b'\xff' * 3]
    with mk.World() as w:
        m = w.module(src)
        st.inc('programs')
        for kind in (0, 1, 255):
            for d in bodies:
                for shape in ('flat', 'held', 'listed'):
                    for d2 in ((b'',) if shape != 'listed' else bodies[:3]):
                        st.inc('evaluations')
                        st.inc('nested_pack_evaluations')

                        def mk_msg(dd):
                            return m.Msg(kind=kind, body=m.Body(n=len(dd), d=dd))
                        if shape == 'flat':
                            p, exp = mk_msg(d), enc_msg(kind, d)
                        elif shape == 'held':
                            p, exp = m.Env(h=0, msg=mk_msg(d), msgs=[], t=9), b'\x00' + enc_msg(kind, d) + b'\x09'
                        else:
                            p = m.Env(h=2, msg=mk_msg(d), msgs=[mk_msg(d2), mk_msg(d)], t=9)
                            exp = b'\x02' + enc_msg(kind, d) + enc_msg(kind, d2) + enc_msg(kind, d) + b'\x09'
                        what = '%s kind=%d body=%r%s (options %r)' % (shape, kind, d, (' second body=%r' % d2) if shape == 'listed' else '', opts)
                        case = {'nested_pack': [opts, kind, d, shape, d2]}
                        try:
                            out = p.pack()
                            out2 = p.pack()
                        except Exception as e:
                            st.violate('nested pack(): raises', '%s: pack() raised %r | %s' % (what, e, NESTED_SRC.replace('\n', '; ')), case, mk.HEADER + src)
                            return
                        if out != exp or out2 != exp:
                            st.violate('nested pack(): pack-bytes', '%s: pack() -> %r, again -> %r, expected %r | %s' % (what, out, out2, exp, NESTED_SRC.replace('\n', '; ')), case, mk.HEADER + src)
                            return
                        try:
                            q = type(p).unpack(out)
                            back = q.pack()
                            same = (q == p)
                        except Exception as e:
                            st.violate('nested pack(): reparse-fails', '%s: unpack(pack()) raised %r' % (what, e), case, mk.HEADER + src)
                            return
                        if back != exp or not same:
                            st.violate('nested pack(): reparse-values', '%s: unpack(pack()) packs to %r (equal to the original: %r), expected %r' % (what, back, same, exp), case, mk.HEADER + src)
                            return
                        st.add('outcomes', ('nested', shape, len(d), bool(opts)))


def _nested_shard(shard, nshards, payload):
    from mc.common import Stats
    st = Stats()
    variants = [{}, {'generate_for_pack': False, 'generate_for_unpack': False}, {'vectorize': False}]
    for i, o in enumerate(variants):
        if i % nshards == shard:
            check_nested_pack(st, o)
    return st


def run(tier):
    st = ea.run(MODULE, tier)
    st.merge(common.merge_all(common.run_sharded(_nested_shard, {'tier': tier})))
    from mc import ea_o
    so = ea_o.run(MODULE, tier)         # every component alone once more under python -O (assert statements stripped)
    st.merge(so)
    st.notes.extend(so.notes)
    LADDER_NOTE = '; plus the shared size and structure ladders (mc/alphabet.py boundary_specs / structure_specs): lengths and counts 5, 8, 9, 16, 17, 32, 33, 64, 65, 128, 129, 255, 256, 257, 1024, 1025, 4096, 4097, 8192, 8193 behind one-, two- and three-byte length fields with their exact encodings (and the same cut short), constant counts and sizes 15..257 first in a packet, far positions (holes of 255..8192 bytes), chains of 4..8 references, lists of lists of lists, nine-byte integers, bit runs of 40/72/80 bits, declarations of 24 components and runs of 17..40 fixed fields, holders whose options differ from the held class, the nested class alone on the field-by-field loop'
    cov = ea.coverage(st, 'every declaration of the alphabet (minus regex delimiters not kept in the value); value assignments = all distinct values '
                          'the reference parses from the input enumeration plus the defaults, each built by keywords and by attribute assignment; '
                          'pack() == reference encoding always; reparse identity/whole-string consumption/assert_consistency when the reference '
                          'round-trips the encoding; states = distinct (declaration, reference round-trips?, pack outcome, encoding length)',
                      {'value_sets': st.n.get('value_sets', 0), 'not_encodable': st.n.get('not_encodable', 0),
                       'reference_does_not_roundtrip': st.n.get('ref_nonroundtrip', 0)})
    cov['rule'] += LADDER_NOTE
    cov['rule'] += '; every component alone once more in child interpreters started with -O; plus nested pack() calls (a described length / checksum whose computation serializes the sub-packet), flat, held and in a list, generated and generic'
    cov['programs_under_python_O'] = st.n.get('programs_under_O', 0)
    return {'stats': st, 'coverage': cov, 'assumptions': ['reference interpreter mc/refsem.py']}


def replay(case):
    if 'nested_pack' in case:
        from mc.common import Stats
        st = Stats()
        check_nested_pack(st, case['nested_pack'][0])
        return st.violations
    if case.get('optimized') and sys.flags.optimize < 1:
        from mc import ea_o
        return ea_o.replay(MODULE, case)
    return ea.replay_decl(sys.modules[__name__], case)
