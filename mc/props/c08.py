"""C08  Repeated, optional and referenced fields follow their declared control semantics.

E-A: every declaration built from the Sequence / Optional / Ref rows of the alphabet (all spellings of
counts and conditions, nesting through the three wrappers) is driven with all inputs up to the bound;
unpack must agree with the reference interpretation on acceptance, on every value and on the end offset.
"""
import sys

from mc import ir, common, ea, alphabet

MODULE = 'mc.props.c08'

STRUCT = [c for c in alphabet.COMPONENTS if c[0] in 'sor' and c not in ('rx', 'rxy', 'rxnk', 'rx1nk')] + ['drem']
PARTNERS = ['i1', 'i2l', 'dn', 'm0', 'b35', 'p_al2']


def optimized_specs(tier):
    """every component alone, once more under python -O (assert statements stripped)"""
    return [{'names': [c], 'wrapper': 'a'} for c in alphabet.COMPONENTS if c not in globals().get('EXCLUDED', ())]


def decl_specs(tier):
    specs = []
    seen = set()

    def add(names, w, opts=None):
        key = (tuple(names), w, repr(opts))
        if key not in seen:
            seen.add(key)
            specs.append({'names': list(names), 'wrapper': w, 'opts': opts or {}})

    for c in STRUCT:
        for w in 'abc':
            add([c], w)
        add([c], 'a', {'generate_for_unpack': False, 'generate_for_pack': False})
    for a in STRUCT:
        for b in (STRUCT if tier == 'thorough' else ['sn', 'su', 'o1', 'r1', 'rs', 'sr']):
            add([a, b], 'a')
            if tier == 'thorough':
                add([a, b], 'c')
        for b in PARTNERS:
            add([a, b], 'a')
            add([b, a], 'a')
            if tier == 'thorough':
                add([a, b], 'b')
    # a selector with TWO packet alternatives inside a repeated packet: the alternatives interleave (A, B, A)
    from mc import ir
    import itertools
    A1 = ir.PKT('A1', [('v', ir.I(1))])
    A2 = ir.PKT('A2', [('w', ir.I(1)), ('e', ir.D(ir.C(0)))])
    for form in ('chooses', 'lambda'):
        K = ir.PKT('K', [('t', ir.I(1)), ('u', ir.RS(ir.F('t'), [(1, A1), (2, A2), (3, ir.I(1))], 0, form=form))])
        W = ir.PKT('W', [('c', ir.I(1)), ('items', ir.S(ir.R(K), ir.F('c')))])
        extra = []
        for n in range(0, 4):
            for ts in itertools.product((1, 2, 3), repeat=n):
                body = b''.join(bytes([t, 5 + i]) for i, t in enumerate(ts))
                extra.append(bytes([n]) + body)
                if n == 3:
                    extra.append(bytes([n]) + body[:-1])
        specs.append({'P': W, 'tag': 'two-packet selector (%s) in a repeated packet' % form, 'extra_inputs': extra})
        W2 = ir.PKT('W', [('t', ir.I(1)), ('l', ir.S(ir.RS(ir.F('t'), [(1, A1), (2, A2)], 0, form=form), ir.C(3), default=[])), ('z', ir.I(1))])
        specs.append({'P': W2, 'tag': 'two-packet selector (%s) repeated' % form, 'extra_inputs': [bytes([t, 7, 8, 9, 1]) for t in (1, 2)] + [bytes([1, 7, 8])]})
    # nesting packet-in-sequence-in-packet twice
    for c in ('sr', 'sur', 'or', 'rs', 'rbag', 'srs'):
        add([c], 'c')
    for c in ('i1', 'i3', 'dn', 'm0', 'b35', 'sn', 'su', 'sr', 'o1', 'r1', 'rs', 'sdn'):
        specs.append({'names': [c], 'wrapper': 'd'})
    specs.extend(alphabet.boundary_specs())
    specs.extend(alphabet.structure_specs())
    return specs


def check_decl(dc, st, tier, only=None):
    if only is not None:
        raw = only['raw']
        r, u = ea.conformance(dc, st, raw, ea.ref_parse(dc.P, raw, only.get('start', 0)), only.get('start', 0))
        if not only.get('start', 0):
            emits(dc, st, raw, r, u)
        return
    budget = ea.budget_for(dc, tier)
    for raw, r in ea.inputs_for(dc, budget):
        r, u = ea.conformance(dc, st, raw, r)
        st.add('states', ea.state_key(dc, r, u, raw))
        emits(dc, st, raw, r, u)


NOT_SEQUENTIAL = {'pos', 'abs', 'class_align', 'elem_aligned', 'em', 'nonconsume', 'regex_nonkept', 'eos', 'rawcb', 'dollar'}


def emits(dc, st, raw, r, u):
    """"... and later emitting nothing": in a purely sequential declaration an absent optional / an empty list emits nothing, and what
    WAS parsed (a present optional - also one holding 0 or b'' -, every element, the chosen alternative) emits exactly the bytes it
    was parsed from: pack() of the parsed packet is the consumed prefix"""
    if u is None or r[0] != 'ok' or u[0] != 'ok' or (dc.feats & NOT_SEQUENTIAL):
        return
    if ir.extract(u[1], dc.P, dc.pkts) != r[1].pv:
        return                                  # already reported by the parse oracle
    st.inc('emit_evaluations')
    out = ea.impl_pack(u[1])
    exp = raw[:r[1].end]
    if out[0] != 'ok' or out[1] != exp:
        kind, _ = first_absent_or_present(dc, r[1].pv)
        call = '%s.unpack(%r).pack()' % (dc.P['name'], raw)
        st.violate('emit-mismatch: %s' % kind, '%s -> %r; parsed as %r from the bytes %r, which is what it must emit | %s' % (
            call, out[1], r[1].pv, exp, dc.src.replace('\n', '; ')), dc.case(raw=raw), dc.snippet('print(%s)' % call))


def first_absent_or_present(dc, pv):
    for fname, n in dc.P['fields']:
        k = ea.node_kind(n)
        if k.startswith(('opt', 'seq', 'ref')):
            return k, fname
    return '?', None


def run(tier):
    st = ea.run(MODULE, tier)
    from mc import ea_o
    so = ea_o.run(MODULE, tier)         # every component alone once more under python -O (assert statements stripped)
    st.merge(so)
    st.notes.extend(so.notes)
    LADDER_NOTE = '; plus the shared size and structure ladders (mc/alphabet.py boundary_specs / structure_specs): lengths and counts 5, 8, 9, 16, 17, 32, 33, 64, 65, 128, 129, 255, 256, 257, 1024, 1025, 4096, 4097, 8192, 8193 behind one-, two- and three-byte length fields with their exact encodings (and the same cut short), constant counts and sizes 15..257 first in a packet, far positions (holes of 255..8192 bytes), chains of 4..8 references, lists of lists of lists, nine-byte integers, bit runs of 40/72/80 bits, declarations of 24 components and runs of 17..40 fixed fields, holders whose options differ from the held class, the nested class alone on the field-by-field loop'
    cov = ea.coverage(st, 'declarations over the repeated/optional/reference rows of the alphabet (count/condition as constant, field, '
                          'expression, callable; until; when; per-element alignment; selector references; nesting through wrappers), alone, '
                          'paired with each other and with plain neighbours; all inputs up to the bound; unpack vs the reference interpretation '
                          '(acceptance, values, end offset); for purely sequential declarations pack() of the parsed packet must be exactly the consumed bytes (absent optionals and empty lists emit nothing, present ones - zero and empty values included - emit their bytes); states = distinct (declaration, wrapper, reference outcome, implementation outcome, input length)')
    cov['rule'] += LADDER_NOTE
    cov['rule'] += '; every component alone once more in child interpreters started with -O'
    cov['programs_under_python_O'] = st.n.get('programs_under_O', 0)
    return {'stats': st, 'coverage': cov, 'assumptions': ['reference interpreter mc/refsem.py (DESIGN.md appendix A)']}


def replay(case):
    if case.get('optimized') and sys.flags.optimize < 1:
        from mc import ea_o
        return ea_o.replay(MODULE, case)
    return ea.replay_decl(sys.modules[__name__], case)
