"""C03  Generated pack/unpack code is equivalent to field-by-field interpretation.

E-A, differential (no reference): every declaration is compiled under ALL 16 combinations of
generate_for_pack / generate_for_unpack / vectorize / annotate (applied to every class of the module);
all inputs up to the bound and all parsed values plus ill-valued ones must give the same outcome class
(values + end offset / PacketError / other exception; bytes / PacketError) in all 16 variants.
"""
import copy
import itertools
import os
import sys

from mc import common, ea, alphabet, ir, mk
from mc.common import Stats

MODULE = 'mc.props.c03'
OPTS = ['generate_for_pack', 'generate_for_unpack', 'vectorize', 'annotate']
VARIANTS = [dict(zip(OPTS, bits)) for bits in itertools.product((True, False), repeat=4)]

FIXED = {
    'B': 'Int(1)', 'b': 'Int(1, signed=True)', 'H': 'Int(2)', 'h': 'Int(2, signed=True)', 'L': 'Int(2, endianness="little")',
    'l': 'Int(2, signed=True, endianness="little")', 'I': 'Int(4)', 'J': 'Int(4, endianness="little")', 'Q': 'Int(8, signed=True)',
    'T': 'Int(3)', 't': 'Int(3, signed=True, endianness="little")', 'F': 'Int(5)', 'D': 'Data(2)', 'E': 'Data(1)', 'Z': 'Data(0)',
}
VARIABLE = {'v': ['n@ = Int(1)', 'v@ = Data(n@)'], 'm': ['v@ = Data(until_marker=b"\\x00")'], 's': ['n@ = Int(1)', 'v@ = Int(1).repeated(n@)'],
            'p': ['v@ = Bits(4)', 'w@ = Bits(4)'], 'q': ['v@ = Bits(3)', 'w@ = Bits(13)'], 'a': ['v@ = Int(1).at(1, "current-offset")'],
            'g': ['v@ = Int(2).aligned(2)'], 'e': ['v@ = Em()'], 'k': ['v@ = Int(1).at(3)'], 'j': ['v@ = Data(2).shift(-3)']}


def shape_lines(shape):
    lines = []
    for i, ch in enumerate(shape):
        if ch in FIXED:
            lines.append('f%d = %s' % (i, FIXED[ch]))
        else:
            for l in VARIABLE[ch]:
                lines.append(l.replace('@', str(i)))
    return lines


def shapes(tier):
    fx = 'BHLITD' if tier == 'quick' else 'BbHhLlIJQTtFDEZ'
    out = []
    for n in (1, 2, 3):
        for t in itertools.product(fx if n < 3 else ('BHLTD' if tier == 'quick' else 'BbHLlITD'), repeat=n):
            out.append(''.join(t))
    if tier == 'thorough':
        for t in itertools.product('BHLTD', repeat=4):
            out.append(''.join(t))
    var = 'vmspqagekj'
    runs = ['B', 'HL', 'BT', 'HD', 'HHH', 'BHH'] if tier == 'quick' else ['B', 'HL', 'LH', 'BT', 'TB', 'HD', 'BHL', 'LLH', 'IJ', 'bQ', 'HHH', 'BHH', 'LLL', 'HHHH']
    for v in var:
        for r in runs:
            out.append(v + r)
            out.append(r + v)
            out.append(r + v + r)
            if tier == 'thorough':
                for r2 in runs[:3]:
                    out.append(r + v + r2)
    for v1 in var:
        for v2 in (var if tier == 'thorough' else 'vpak'):
            out.append('B' + v1 + v2 + 'H')
    return sorted(set(out), key=lambda s: (len(s), s))


SPECIAL = [
    # described fields (sync hooks in generated code), embed, class endianness, references
    ('described', ["length = Int(1).describe(AutoLength('a'))", 'a = Data(length)', 'z = Int(2)'], ''),
    ('described-run', ['x = Int(1)', "length = Int(2).describe(AutoLength('a'))", 'y = Int(1)', 'a = Data(length)'], ''),
    ('described-auto', ["bits = Int(1).describe(Auto(lambda pkt: len(pkt.a) * 8))", 'a = Data(bits // 8)'], ''),
    # described AND positioned (a move pseudo-field precedes the described one); the stored value may disagree with the computed one
    ('described-auto-at', ["bits = Int(1).describe(Auto(lambda pkt: len(pkt.a) * 8)).at(1)", 'a = Data(bits // 8)', 'z = Int(1)'], ''),
    ('described-auto-shift', ['x = Int(1)', "bits = Int(2).shift(1).describe(Auto(lambda pkt: len(pkt.a) * 8))", 'a = Data(bits // 8).aligned(2)'], ''),
    ('described-class-align', ['x = Int(1)', "bits = Int(1).describe(Auto(lambda pkt: len(pkt.a) * 8))", 'a = Data(bits // 8)'], 'ALIGN'),
    ('described-at', ["length = Int(1).describe(AutoLength('a')).at(1)", 'a = Data(length)', 'z = Int(2)'], ''),
    # several described fields in one class (every sync hook runs, in both code paths), the tracked data changed after parsing
    ('described-two', ["la = Int(1).describe(AutoLength('a'))", "lb = Int(1).describe(AutoLength('b'))", 'a = Data(la)', 'b = Data(lb)'], ''),
    ('described-three', ["la = Int(1).describe(AutoLength('a'))", 'x = Int(1)', "bits = Int(1).describe(Auto(lambda pkt: len(pkt.b) * 8))",
                         "lc = Int(2).describe(AutoLength('c'))", 'a = Data(la)', 'b = Data(bits // 8)', 'c = Data(lc)'], ''),
    ('embed', ['pt = Ref(Pt(x=1, y=2), embed=True)', 'z = Int(1)'], mk.class_src('Pt', ['x = Int(1)', 'y = Int(2, endianness="little")'])),
    ('embed-mid', ['m = Data(until_marker=b"\\x00")', 'pt = Ref(Pb(), embed=True)', 'z = Int(2)'],
     mk.class_src('Pb', ['p = Bits(4)', 'q = Bits(4)', 'n = Int(1)', 'd = Data(n)'])),
    ('embed-mid2', ['n0 = Int(1)', 'l = Int(1).repeated(n0)', 'pt = Ref(Pc(), embed=True)', 'b1 = Bits(3)', 'b2 = Bits(5)'],
     mk.class_src('Pc', ['k = Int(1)', 'v = Data(k)', 'w = Int(2, endianness="little")'])),
    ('embed-at', ['h = Int(1)', 'x = Int(1).at(3)', 'pt = Ref(Pd(), embed=True)', 'z = Int(1)'],
     mk.class_src('Pd', ['y = Data(1).shift(1)', 'e = Int(2)'])),
    ('class-little', ['a = Int(2)', 'b = Int(2, endianness="big")', 'c = Int(3)', 'd = Int(4)'], 'ENDIAN'),
    ('class-align', ['a = Int(1)', 'b = Int(2)', 'n = Int(1)', 'd = Data(n)', 'c = Int(1)'], 'ALIGN'),
    ('ref', ['a = Int(1)', 's = Ref(Sub)', 'b = Int(2)'], mk.class_src('Sub', ['x = Int(1)', 'y = Data(x)', 'z = Int(2, endianness="little")'])),
    ('ref-seq', ['n = Int(1)', 's = Ref(Sub).repeated(n)', 'b = Int(2)'], mk.class_src('Sub', ['x = Int(1)', 'y = Int(2, endianness="little")', 'w = Int(1)'])),
    ('opt', ['t = Int(1)', 'o = Int(2).when(t)', 'b = Int(1)'], ''),
]


def ladder_programs(tier):
    """size ladders: a constant-size Data of every size up to 130 and selected larger ones (sizes whose decimal spelling
    repeats a digit, powers of two and their neighbours) inside a run; runs of 4..40 one-byte / two-byte integers"""
    out = []
    sizes = list(range(3, 131)) + [200, 222, 255, 256, 257, 300, 333, 999, 1000, 1024, 1110, 1111, 2000, 4095, 4096, 4097, 10000]
    if tier == 'thorough':
        sizes += list(range(131, 1200)) + [8191, 8192, 8193, 11111, 65535, 65536]
    for n in sizes:
        out.append({'prog': ['a = Int(1)', 'd = Data(%d)' % n, 'z = Int(2)'], 'size': n + 3})
    for n in list(range(4, 41)) + ([48, 64, 65, 100, 128, 129, 255, 256, 257] if tier == 'thorough' else [64, 65]):
        out.append({'prog': ['f%d = Int(1)' % i for i in range(n)], 'size': n})
        out.append({'prog': ['f%d = Int(%d)' % (i, 1 + i % 2) for i in range(n)] + ['t = Data(2)'], 'size': n + n // 2 + 2})
    return out


def decl_specs(tier):
    specs = []
    for sh in shapes(tier):
        specs.append({'shape': sh})
    specs.extend(ladder_programs(tier))
    for tag, lines, extra in SPECIAL:
        specs.append({'special': tag})
    for lin in LINEAGES:
        specs.append({'lineage': lin})
    comps = [c for c in alphabet.COMPONENTS]
    red = [c for c in alphabet.REDUCED]
    for c in comps:
        for w in 'abc':
            specs.append({'names': [c], 'wrapper': w})
    pairs = red if tier == 'thorough' else ['i2l', 'i3', 'dn', 'm0', 'b35', 'r1', 'rs', 'sn', 'o1', 'p_at3', 'p_al2']
    for a in pairs:
        for b in pairs:
            specs.append({'names': [a, b], 'wrapper': 'a'})
    return specs


def variant_source(spec, opts):
    """module source of the spec with the code-generation options applied to every class"""
    if 'shape' in spec:
        return mk.class_src('K', shape_lines(spec['shape']), opts), 'K'
    if 'prog' in spec:
        return mk.class_src('K', spec['prog'], opts), 'K'
    if 'special' in spec:
        for tag, lines, extra in SPECIAL:
            if tag == spec['special']:
                o = dict(opts)
                pre = ''
                if extra == 'ENDIAN':
                    o['endianness'] = 'little'
                elif extra == 'ALIGN':
                    o['align'] = 4
                elif extra:
                    pre = extra.replace('(Packet):\n', '(Packet):\n    __bisturi__ = %r\n' % (dict(opts),)) + '\n'
                return pre + mk.class_src('K', lines, o), 'K'
    P = copy.deepcopy(alphabet.make_decl(spec['names'], spec.get('opts'), spec.get('wrapper', 'a')))
    for q in ir.subpackets(P):
        q['opts'] = dict(q.get('opts') or {}, **opts)
    return ir.module_src(P), P['name']


def snapshot(p, depth=0):
    from bisturi.packet import Packet
    if isinstance(p, Packet):
        out = [type(p).__name__]
        for name, f, _, _ in p.get_fields():
            if getattr(f, 'holds_no_value', False):
                continue
            nm = getattr(f, 'descriptor_name', None) or name
            try:
                v = getattr(p, nm)
            except Exception as e:
                v = '<unset %s>' % type(e).__name__
            out.append((nm, snapshot(v, depth + 1)))
        return tuple(out)
    if isinstance(p, list):
        return [snapshot(x, depth + 1) for x in p]
    return p


def unpack_outcome(K, raw):
    from bisturi.packet import PacketError
    try:
        p = K.unpack(raw)
    except PacketError:
        return ('PacketError',), None
    except Exception as e:
        return ('exception', type(e).__name__), None
    try:
        end = ea.impl_end(K, raw)
    except Exception as e:
        end = 'end raised %s' % type(e).__name__
    return ('ok', snapshot(p), end), p


def pack_outcome(p):
    from bisturi.packet import PacketError
    try:
        return ('ok', p.pack())
    except PacketError:
        return ('PacketError',)
    except Exception as e:
        return ('exception', type(e).__name__)


def ill_values(v, f=None):
    if isinstance(v, bool):
        return []
    if isinstance(v, int):
        return [-1, 255, 256, 65535, 65536, 2 ** 24, 2 ** 32, -2 ** 15 - 1, 2 ** 64, None, 'x', 1.5]
    if isinstance(v, bytes):
        # (two well-typed changes of length first: described lengths must follow in both code paths)
        # (a constant-size Data only has values of that size: other lengths are outside the declared type and stay out)
        return ([v + b'yz', v[:-1]] if f is not None and not getattr(f, 'is_fixed', True) else []) + [None, 5]
    return []


def check_spec(spec, st, tier, only=None):
    from bisturi.packet import Packet
    worlds, classes = [], []
    base_src = None
    variants = VARIANTS
    if tier == 'quick' and 'names' in spec:
        # the component alphabet is also covered by C01/C02/C08 ...: in the quick tier it runs under the six
        # option combinations that select different code (all 16 for the run shapes and the special programs)
        variants = [v for v in VARIANTS if (v['vectorize'] and v['annotate']) or
                    (v['generate_for_pack'] and v['generate_for_unpack'] and (v['vectorize'] != v['annotate']))]
    try:
        for opts in variants:
            src, cname = variant_source(spec, opts)
            base_src = base_src or src
            w = mk.World()
            worlds.append(w)
            try:
                m = w.module(src)
            except Exception as e:
                st.violate('definition-fails', 'defining with %r raised %r | %s' % (opts, e, src.replace('\n', '; ')), {'spec': spec})
                return
            K = getattr(m, cname)
            classes.append(K)
            # non-vacuity: the variant really runs the code path its options name
            gen_u = K.unpack_impl != Packet.unpack_impl
            gen_p = K.pack_impl != Packet.pack_impl
            if gen_u != opts['generate_for_unpack'] or gen_p != opts['generate_for_pack']:
                st.notes.append('HARNESS: options %r do not select the expected code path (generated unpack=%r pack=%r)' % (opts, gen_u, gen_p))
                return
        st.inc('programs')
        srcline = base_src.replace('\n', '; ')
        if only is not None:
            inputs = [only['raw']] if 'raw' in only else []
        else:
            syms = [0, 1, 2, 0xff, 0x41]
            if 'prog' in spec:
                # a ladder program: its exact encoding (a position-revealing pattern), one byte less, one byte more, a short one
                n = spec['size']
                pat = bytes((i * 7 + 1) % 251 for i in range(n + 1))
                inputs = [pat[:n], pat[:n - 1], pat, pat[:2], b'\xff' * n]
                syms = None
            L = 3 if tier == 'quick' else 5
            if tier == 'thorough' and ('names' in spec or len(spec.get('shape', '')) >= 3):
                L = 4       # longer declarations: the long ramp inputs below reach their later fields
            if syms is not None and 'names' in spec:
                P = alphabet.make_decl(spec['names'], spec.get('opts'), spec.get('wrapper', 'a'))
                syms = alphabet.byte_alphabet(P, common.SEED)[:5]
            if syms is not None:
                inputs = list(alphabet.all_strings(syms, L))
            # longer inputs for wide runs: ramp extensions of the all-zero / all-one strings
            for fill in ((0, 1, 0xff) if syms is not None else ()):
                for n in range(L + 1, 17):
                    inputs.append(bytes([fill]) * 2 + ea.RAMP[:n - 2])
            # small control prefixes (counts, lengths, markers) followed by a ramp: the later fields of longer declarations
            if 'special' in spec or ('shape' in spec and any(ch in VARIABLE for ch in spec['shape'])):
                for t in alphabet.all_strings([0, 1, 2], 3 if 'special' in spec else 2):
                    for k in (4, 9):
                        inputs.append(t + ea.RAMP[:k])
        seen_vals = set()
        for raw in inputs:
            st.inc('evaluations')
            outs = [unpack_outcome(K, raw) for K in classes]
            o0 = outs[0][0]
            st.add('outcomes', o0[0])
            for (o, p), opts in zip(outs[1:], variants[1:]):
                if o != o0:
                    st.violate('unpack differs: %s vs %s' % (o0[0], o[0]),
                               'unpack(%r): all-on gives %r, %r gives %r | %s' % (raw, o0, opts, o, srcline),
                               {'spec': spec, 'raw': raw}, mk.HEADER + base_src + '\nprint(K.unpack(%r))' % raw)
                    return
            if o0[0] == 'ok':
                st.inc('accepted')
                key = repr(o0[1])
                if key in seen_vals:
                    continue
                seen_vals.add(key)
                st.add('states', (repr(spec), key[:200]))
                pouts = [pack_outcome(p) for _, p in outs]
                for po, opts in zip(pouts[1:], variants[1:]):
                    if po != pouts[0]:
                        st.violate('pack differs: %s vs %s' % (pouts[0][0], po[0]), 'pack() after unpack(%r): all-on %r, %r gives %r | %s' % (raw, pouts[0], opts, po, srcline),
                                   {'spec': spec, 'raw': raw}, mk.HEADER + base_src + '\nprint(K.unpack(%r).pack())' % raw)
                        return
                if len(seen_vals) > (12 if tier == 'quick' else 200):
                    continue
                # ill-valued and ill-typed values, one top-level attribute at a time
                p0 = outs[0][1]
                for name, f, _, _ in type(p0).get_fields():
                    if getattr(f, 'holds_no_value', False):
                        continue
                    nm = getattr(f, 'descriptor_name', None) or name
                    if nm.startswith('_'):
                        continue
                    try:
                        cur = getattr(p0, nm)
                    except Exception:
                        continue
                    for bad in ill_values(cur, f):
                        res = []
                        for K in classes:
                            q = K.unpack(raw)
                            setattr(q, nm, bad)
                            res.append(pack_outcome(q))
                        st.inc('evaluations')
                        st.add('outcomes', 'pack-' + res[0][0])
                        for po, opts in zip(res[1:], variants[1:]):
                            if po != res[0]:
                                st.violate('pack differs on ill value: %s vs %s' % (res[0][0], po[0]),
                                           'p = unpack(%r); p.%s = %r; p.pack(): all-on %r, %r gives %r | %s' % (raw, nm, bad, res[0], opts, po, srcline),
                                           {'spec': spec, 'raw': raw}, mk.HEADER + base_src + '\np = K.unpack(%r); p.%s = %r; print(p.pack())' % (raw, nm, bad))
                                return
            else:
                st.inc('rejected')
    finally:
        for w in worlds:
            w.dispose()


LINEAGES = [['HB', 'BH', 'HB'], ['HH', 'II', 'HH'], ['H', 'L', 'h'], ['BD', 'DB'], ['vB', 'sB', 'vB'], ['TB', 'BT'], ['pH', 'qH'], ['BkH', 'BjH'],
            ['HLH', 'LHL', 'HHH']]


def check_lineage(spec, st, tier, only=None):
    """same-named classes with DIFFERENT layouts defined one after the other in ONE module (they share one cache file), under each
    option combination; each must behave like the same layout defined alone with generation off. The module text is executed
    twice: the second round meets the cache file the last definition of the first round left."""
    shapes_ = spec['lineage']
    inputs = list(alphabet.all_strings([0, 1, 2, 0xff, 0x41], 3))
    for fill in (0, 1, 0xff):
        for n in (4, 6, 9):
            inputs.append(bytes([fill]) * 2 + ea.RAMP[:n - 2])
    off = {'generate_for_pack': False, 'generate_for_unpack': False, 'vectorize': True, 'annotate': True}
    refs = []
    worlds = []
    try:
        for sh in shapes_:
            w = mk.World()
            worlds.append(w)
            refs.append(w.module(mk.class_src('K', shape_lines(sh), off)).K)
        expected = []
        for K in refs:
            row = []
            for raw in inputs:
                o, p = unpack_outcome(K, raw)
                row.append((o, pack_outcome(p) if p is not None else None))
            expected.append(row)
        st.inc('programs')
        for opts in VARIANTS:
            src = ''.join(mk.class_src('K', shape_lines(sh), opts) + 'K__%d = K\n\n' % i for i, sh in enumerate(shapes_))
            w = mk.World()
            worlds.append(w)
            m = w.module(src)
            for rnd in range(2):
                for i, sh in enumerate(shapes_):
                    K = getattr(m, 'K__%d' % i)
                    for raw, (eo, ep) in zip(inputs, expected[i]):
                        st.inc('evaluations')
                        o, p = unpack_outcome(K, raw)
                        po = pack_outcome(p) if p is not None else None
                        if o != eo or po != ep:
                            st.violate('same-named classes in one module: %s differs' % ('unpack' if o != eo else 'pack'),
                                       'definition #%d (%s, round %d) of K under %r: unpack(%r) -> %r / pack %r; the same layout alone with generation off: %r / %r | %s' % (
                                           i, sh, rnd, opts, raw, o, po, eo, ep, src.replace('\n', '; ')),
                                       {'spec': spec}, mk.HEADER + src + 'print(K__%d.unpack(%r))' % (i, raw))
                            return
                if rnd == 0:
                    exec(compile(mk.HEADER + src, m.__file__, 'exec'), m.__dict__)
        st.add('states', ('lineage', tuple(shapes_)))
    finally:
        for w in worlds:
            w.dispose()


def _shard(shard, nshards, payload):
    st = Stats()
    specs = decl_specs(payload['tier'])
    if payload.get('o'):
        # under python -O: the one- and two-field shapes and the special programs (the components run under -O in C01/C02/C04/C08/C12)
        specs = [sp for sp in specs if ('shape' in sp and len(sp['shape']) <= 2) or 'special' in sp]
    for i, spec in enumerate(specs):
        if i % nshards != shard:
            continue
        if 'lineage' in spec:
            check_lineage(spec, st, payload['tier'])
            continue
        check_spec(spec, st, payload['tier'])
        if i % 131 == common.SEED % 131:
            st.sample({'spec': spec, 'source_all_on': variant_source(spec, VARIANTS[0])[0]})
    return st


def run(tier):
    st = common.merge_all(common.run_sharded(_shard, {'tier': tier}))
    from mc import ea_o
    so = ea_o.run_shard('mc.props.c03', '_shard', {'tier': 'quick', 'o': True})      # short shapes and specials once more under python -O
    st.merge(so)
    st.notes.extend(so.notes)
    cov = ea.coverage(st, 'runs of 1-%d fixed-size fields over Int 1/2/4/8 (big/little, signed), Int 3/5, constant Data, a variable field (Data by field, marker, '
                          'repeated, Bits 4+4 / 3+13, positioned, aligned, Em) before/between/after runs, described fields, embed, class endianness/align, '
                          'references, plus the whole component alphabet x wrappers; each under all 16 option combinations applied to every class; %d lineages of same-named classes with different layouts sharing one cache file under each combination; all inputs '
                          'up to the bound plus long ramp inputs; every parsed value packed again and with ill values per attribute; '
                          'states = distinct (declaration, parsed value); the one- and two-field shapes and the special programs once more in child interpreters started with -O' % (3 if tier == 'quick' else 4, len(LINEAGES)),
                      {'variants_per_program': 16})
    errs = [n for n in st.notes if n.startswith('HARNESS')]
    return {'stats': st, 'coverage': cov, 'harness_errors': errs,
            'assumptions': ['wrong-length values for constant-size Data are not values of the declared type and are not tried',
                            'error contents may differ between the paths (field vs run name): that is C12']}


def replay(case):
    st = Stats()
    if 'lineage' in case['spec']:
        check_lineage(case['spec'], st, 'thorough')
        return st.violations
    check_spec(case['spec'], st, 'thorough', only=case)
    return st.violations
