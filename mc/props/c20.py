"""C20  Packet equality is structural and total.

E-A, metamorphic: for every declaration (in particular positioned / aligned / Em / class align) and
every accepted input: two parses are == and not !=; a copy differing in exactly one leaf value at any
depth is != and not ==; a same-shaped packet of a twin class, None and non-packets compare unequal;
constructed-vs-parsed packets with equal values are equal; nothing raises; repr returns a str.
"""
import copy
import sys

from mc import common, ea, alphabet, ir, refsem, mk

MODULE = 'mc.props.c20'

DESCRIBED_SRC = mk.class_src('K', ["length = Int(1).describe(AutoLength('a'))", 'a = Data(length)'])


def decl_specs(tier):
    specs = []
    for names, w in alphabet.declarations(tier):
        specs.append({'names': list(names), 'wrapper': w})
    for c in ('i1', 'dn', 'sn', 'sr', 'r1', 'm0', 'o1', 'em', 'rvec'):
        for al in (2, 4):
            specs.append({'names': ['i1', c], 'wrapper': 'a', 'opts': {'align': al}})
            specs.append({'names': [c, 'i2'], 'wrapper': 'b', 'opts': {'align': al}})
    # one options dict object shared by all the classes of a module
    for c in ('r1', 'sr', 'rs', 'or', 'rbag', 'i1', 'rvec'):
        for w in 'bc':
            specs.append({'names': [c, 'i2'], 'wrapper': w, 'shared': {}})
        specs.append({'names': ['i1', c], 'wrapper': 'b', 'shared': {'endianness': 'little'}})
    specs.append({'described': True, 'names': []})
    # another class of the program borrows the fields of the class under test (Ref(K, embed=True)) before K is used
    for c in alphabet.COMPONENTS:
        specs.append({'names': [c, 'i1'], 'wrapper': 'a', 'embedder': True})
    for c in ('r1', 'rs', 'sr', 'or', 'rvec', 'rbag'):
        specs.append({'names': [c], 'wrapper': 'b', 'embedder': True})
    for c in ('i1', 'i3', 'dn', 'm0', 'b35', 'sn', 'su', 'sr', 'o1', 'r1', 'rs', 'sdn'):
        specs.append({'names': [c], 'wrapper': 'd'})
    return specs


def leaf_mutations(pv):
    """PVs that differ from pv in exactly one leaf (depth first); yields (path, mutated pv)"""
    def mutate(v):
        # returns list of (subpath, new value)
        out = []
        if isinstance(v, ir.PV):
            for k, x in v.vals.items():
                for sp, nx in mutate(x):
                    nv = ir.PV(v.name, dict(v.vals))
                    nv.vals[k] = nx
                    out.append(((k,) + sp, nv))
        elif isinstance(v, list):
            out.append((('+',), v + [v[-1] if v else 0]))
            for i, x in enumerate(v):
                for sp, nx in mutate(x):
                    nl = list(v)
                    nl[i] = nx
                    out.append(((i,) + sp, nl))
        elif isinstance(v, bool):
            out.append(((), not v))
        elif isinstance(v, int):
            out.append(((), v + 1))
        elif isinstance(v, bytes):
            out.append(((), v + b'!'))
        elif v is None:
            out.append(((), 0))
        return out
    return mutate(pv)


def safe(fn):
    try:
        return ('ok', fn())
    except Exception as e:
        return ('exc', e)


def expect(dc, st, what, res, want, case, kind):
    if res[0] == 'exc':
        st.violate('raises %s: %s' % (kind, type(res[1]).__name__), '%s raised %r | %s' % (what, res[1], dc.src.replace('\n', '; ')), case, dc.snippet('# ' + what))
        return False
    if res[1] is not want:
        st.violate('wrong %s' % kind, '%s -> %r, expected %r | %s' % (what, res[1], want, dc.src.replace('\n', '; ')), case, dc.snippet('# ' + what))
        return False
    return True


def check_one(dc, st, raw, r, twin):
    st.inc('evaluations')
    if r[0] != 'ok':
        return
    u1, u2 = ea.impl_unpack(dc.K, raw), ea.impl_unpack(dc.K, raw)
    if u1[0] != 'ok' or u2[0] != 'ok':
        st.inc('disagree')
        return
    p, q = u1[1], u2[1]
    pv = r[1].pv
    if ir.extract(p, dc.P, dc.pkts) != pv:
        st.inc('disagree')
        return
    st.inc('accepted')
    case = dc.case(raw=raw)
    name = dc.P['name']
    feat = 'positioned' if ('pos' in dc.feats or 'em' in dc.feats or 'class_align' in dc.feats) else 'plain'
    st.add('states', (tuple(dc.spec.get('names', ())), dc.spec.get('wrapper'), repr(dc.spec.get('opts')), repr(pv)))
    ok = expect(dc, st, '%s.unpack(%r) == %s.unpack(%r)' % (name, raw, name, raw), safe(lambda: p == q), True, case, '== (%s)' % feat)
    ok = ok and expect(dc, st, '%s.unpack(%r) != %s.unpack(%r)' % (name, raw, name, raw), safe(lambda: p != q), False, case, '!= (%s)' % feat)
    rp = safe(lambda: repr(p))
    if rp[0] == 'exc' or not isinstance(rp[1], str):
        st.violate('raises repr (%s)' % feat, 'repr(%s.unpack(%r)) -> %r | %s' % (name, raw, rp[1], dc.src.replace('\n', '; ')), case, dc.snippet('print(repr(%s.unpack(%r)))' % (name, raw)))
        ok = False
    if not ok:
        return
    # constructed vs parsed
    c = safe(lambda: ir.construct(dc.mod, dc.P, pv, 'kw'))
    if c[0] == 'ok':
        expect(dc, st, '%s == %s.unpack(%r)' % (ir.value_src(pv), name, raw), safe(lambda: c[1] == p), True, case, 'constructed == parsed')
        expect(dc, st, '%s.unpack(%r) != %s' % (name, raw, ir.value_src(pv)), safe(lambda: p != c[1]), False, case, 'parsed != constructed')
    # one leaf changed, at any depth
    for path, mv in leaf_mutations(pv):
        m = safe(lambda: ir.construct(dc.mod, dc.P, mv, 'kw'))
        if m[0] != 'ok':
            continue
        st.inc('mutations')
        a = expect(dc, st, '%s.unpack(%r) == %s' % (name, raw, ir.value_src(mv)), safe(lambda: p == m[1]), False, case, '== after changing one field')
        b = expect(dc, st, '%s != %s.unpack(%r)' % (ir.value_src(mv), name, raw), safe(lambda: m[1] != p), True, case, '!= after changing one field')
        if not (a and b):
            return
    # other classes / non packets
    t = safe(lambda: ir.construct(dc.mod, twin, ir.PV(twin['name'], pv.vals), 'kw'))
    if t[0] == 'ok':
        expect(dc, st, 'packet == same-shaped packet of a twin class', safe(lambda: p == t[1]), False, case, '== other class')
        expect(dc, st, 'packet != same-shaped packet of a twin class', safe(lambda: p != t[1]), True, case, '!= other class')
    for other in (None, 0, b'', 'x', object()):
        if not expect(dc, st, 'packet == %r' % (other,), safe(lambda: p == other), False, case, '== non-packet'):
            return
        if not expect(dc, st, 'packet != %r' % (other,), safe(lambda: p != other), True, case, '!= non-packet'):
            return


def apply_inplace(dc, obj, mv, path):
    """changes exactly the leaf `path` of the real packet obj IN PLACE to the value it has in the PV mv"""
    cur_obj, cur_val = obj, mv
    for step in path[:-1]:
        if isinstance(step, str):
            cur_obj, cur_val = getattr(cur_obj, step), cur_val.vals[step]
        else:
            cur_obj, cur_val = cur_obj[step], cur_val[step]

    def conv(v):
        if isinstance(v, ir.PV):
            return ir.construct(dc.mod, dc.pkts[v.name], v, 'kw')
        if isinstance(v, list):
            return [conv(x) for x in v]
        return v
    last = path[-1]
    if last == '+':
        cur_obj.append(conv(cur_val[-1]))
    elif isinstance(last, str):
        setattr(cur_obj, last, conv(cur_val.vals[last]))
    else:
        cur_obj[last] = conv(cur_val[last])


def check_inplace(dc, st, pv, make, what, case):
    """two equal packets; ONE leaf of the second is changed in place (at any depth): they must become unequal
    and the first one must not have changed with it"""
    for path, mv in leaf_mutations(pv):
        try:
            p, q = make(), make()
        except Exception:
            return
        try:
            apply_inplace(dc, q, mv, path)
        except Exception:
            continue
        st.inc('inplace_mutations')
        if ir.extract(p, dc.P, dc.pkts) != pv:
            st.violate('in-place change of one packet shows in another', '%s: changing %r of the second packet in place changed the first to %r | %s' % (
                what, path, ir.extract(p, dc.P, dc.pkts), dc.src.replace('\n', '; ')), case, dc.snippet('# ' + what))
            return
        a = expect(dc, st, '%s; second.%r changed in place; first == second' % (what, path), safe(lambda: p == q), False, case, '== after an in-place change')
        b = expect(dc, st, '%s; second.%r changed in place; first != second' % (what, path), safe(lambda: p != q), True, case, '!= after an in-place change')
        if not (a and b):
            return


def check_described(st):
    """described field: the visible values decide equality (constructed vs parsed)"""
    with mk.World() as w:
        K = w.module(DESCRIBED_SRC).K
        st.inc('evaluations')
        for raw, kw in ((b'\x01x', {'a': b'x'}), (b'\x00', {'a': b''}), (b'\x02xy', {'a': b'xy'})):
            p = K.unpack(raw)
            c = K(**kw)
            same = (c.length, c.a) == (p.length, p.a)
            try:
                eq, ne = (c == p), (c != p)
            except Exception as e:
                st.violate('described raises', 'K(a=%r) == K.unpack(%r) raised %r' % (kw['a'], raw, e), {'spec': {'described': True, 'names': []}}, mk.HEADER + DESCRIBED_SRC)
                return
            if same and (eq is not True or ne is not False):
                st.violate('described-field equality', 'K(a=%r) and K.unpack(%r) read the same (length=%r, a=%r) but == gives %r' % (kw['a'], raw, p.length, p.a, eq),
                           {'spec': {'described': True, 'names': []}}, mk.HEADER + DESCRIBED_SRC + 'print(K(a=%r) == K.unpack(%r))' % (kw['a'], raw))
                return


check_embed = check_described     # the engine's hook for special specs


def check_decl(dc, st, tier, only=None):
    twin = copy.deepcopy(dc.P)
    twin['name'] = dc.P['name'] + 'Twin'
    tw = dc.world.module(ir.pkt_src(twin), header=mk.HEADER + 'from %s import *\n' % dc.mod.__name__)
    setattr(dc.mod, twin['name'], getattr(tw, twin['name']))
    if dc.spec.get('embedder'):
        for i, q in enumerate(ir.subpackets(dc.P)):
            try:
                dc.world.module(mk.class_src('Emb%d' % i, ['head = Int(1)', 'body = Ref(%s, embed=True)' % q['name'], 'tail = Int(1)']),
                                header=mk.HEADER + 'from %s import *\n' % dc.mod.__name__)
                st.inc('embedders')
            except Exception:
                st.inc('embedder_not_definable')      # embedding is not what this property is about
    if only is not None:
        if only.get('inplace') == 'defaults':
            d = refsem.defaults(dc.P)
            check_inplace(dc, st, d, lambda: dc.K(), 'two default-constructed packets', dc.case(inplace='defaults'))
            return
        check_one(dc, st, only['raw'], ea.ref_parse(dc.P, only['raw']), twin)
        if only.get('inplace') == 'parsed':
            r = ea.ref_parse(dc.P, only['raw'])
            if r[0] == 'ok':
                check_inplace(dc, st, r[1].pv, lambda: dc.K.unpack(only['raw']), 'two packets parsed from %r' % only['raw'], dc.case(raw=only['raw'], inplace='parsed'))
        return
    d = refsem.defaults(dc.P)
    check_inplace(dc, st, d, lambda: dc.K(), 'two default-constructed %s()' % dc.P['name'], dc.case(inplace='defaults'))
    budget = 300 if tier == 'quick' else 1500
    seen = set()
    nin = 0
    for raw, r in ea.inputs_for(dc, budget):
        if r[0] == 'ok':
            key = repr(r[1].pv)
            if key in seen:
                continue
            seen.add(key)
            if len(key) > 600:
                st.inc('skipped_large')      # 255-element lists of empty elements: quadratic and uninformative
                continue
        check_one(dc, st, raw, r, twin)
        if r[0] == 'ok' and nin < 4 and len(raw) >= 2:
            nin += 1
            check_inplace(dc, st, r[1].pv, lambda raw=raw: dc.K.unpack(raw), 'two packets parsed from %r' % raw, dc.case(raw=raw, inplace='parsed'))


def run(tier):
    st = ea.run(MODULE, tier)
    cov = ea.coverage(st, 'every declaration of the alphabet incl. all positioned/aligned/Em/class-align ones; for every distinct accepted value: '
                          'parsed==parsed, constructed==parsed, every single-leaf mutation at any depth is unequal, twin class / None / non-packets unequal, '
                          'repr is a str, nothing raises; two equal packets (default-constructed / parsed from the same bytes) with one leaf of the second changed IN PLACE must become unequal while the first stays as it was; one declaration per component with another class that embeds it (Ref(K, embed=True)) defined first; states = distinct (declaration, value)', {'mutations': st.n.get('mutations', 0), 'inplace_mutations': st.n.get('inplace_mutations', 0),
                       'classes_embedding_the_class_under_test': st.n.get('embedders', 0), 'embedders_not_definable': st.n.get('embedder_not_definable', 0)})
    return {'stats': st, 'coverage': cov, 'assumptions': ['values of mutated copies are built with the constructor (no validation needed for ==)']}


def replay(case):
    from mc.common import Stats
    if case['spec'].get('described'):
        st = Stats()
        check_described(st)
        return st.violations
    return ea.replay_decl(sys.modules[__name__], case)
