"""C10  Positioning and alignment act identically when parsing and serializing.

E-A: every positioning modifier (at / shift / aligned) x reference point x constant / field / callable
target on Int, Data, repeated, reference and Em fields, class-wide align and per-element alignment,
through the three wrappers and start offsets 0..3. Inputs: every control-byte prefix over {0..4} followed
by a position-revealing ramp (a wrong position is always a wrong value). Oracle: unpack reads every field
where the reference rule puts it (values + end offset), and pack() writes every field where the same
rule puts it with '.' in every skipped byte (reference encoding), or raises on a collision.
"""
import sys

from mc import common, ea, alphabet, ir, refsem
from mc.ir import PKT, I, D, S, R, EM, F, C, BIN, pos

MODULE = 'mc.props.c10'
RAMP = b'ABCDEFGHIJ'
PREFIX = b'\xe1\xe2\xe3'


def modifiers():
    out = []
    for ref in (None, 'begins', 'current-offset'):
        out.append(('at', C(3), 'const', ref))
        out.append(('at', F('k'), 'field', ref))
        out.append(('at', BIN('add', F('k'), C(1)), 'lambda', ref))
    out.append(('shift', C(1), 'const', None))
    out.append(('shift', C(-1), 'const', None))
    out.append(('shift', F('k'), 'field', None))
    out.append(('shift', BIN('sub', F('k'), C(1)), 'lambda', None))
    for ref in (None, 'innermost-pkt', 'current-offset'):
        out.append(('aligned', C(2), 'const', ref))
        out.append(('aligned', C(4), 'const', ref))
        out.append(('aligned', C(3), 'const', ref))
        out.append(('aligned', C(6), 'const', ref))
        out.append(('aligned', F('k'), 'field', ref))
        out.append(('aligned', BIN('add', F('k'), C(1)), 'lambda', ref))
    return out


def elements():
    return [('int', I(1)), ('data', D(C(2))), ('seq', S(I(1), F('n'))), ('ref', R(alphabet.SUB)), ('em', EM()), ('int3', I(3))]


def decl_specs(tier):
    specs = []
    for ename, el in elements():
        for m, arg, sp, ref in modifiers():
            fields = [('h', I(1))]
            if sp != 'const':
                fields.append(('k', I(1)))
            if ename == 'seq':
                fields.append(('n', I(1)))
            fields.append(('x', pos(el, m, arg, sp, ref)))
            fields.append(('z', I(1)))
            # h, i, j: the NESTED class alone runs the field-by-field loop (both directions / parsing only / serializing only)
            # inside a holder with generated code
            for w in 'abcghij':
                if tier == 'quick' and w != 'a' and ename in ('int3', 'seq') and sp == 'lambda':
                    continue
                if tier == 'quick' and w in 'hij' and ename not in ('int', 'data'):
                    continue
                gen = {'g': dict(generate_for_pack=False, generate_for_unpack=False), 'h': dict(generate_for_pack=False, generate_for_unpack=False),
                       'i': dict(generate_for_unpack=False), 'j': dict(generate_for_pack=False)}.get(w, {})
                K = PKT('K', fields, **gen)
                if w in 'bhj':
                    P = PKT('W', [('pre', I(1)), ('body', R(K))])
                elif w in 'ci':
                    P = PKT('W', [('c', I(1)), ('items', S(R(K), F('c')))])
                else:
                    P = K
                specs.append({'P': P, 'tag': '%s.%s(%s,%s) wrapper=%s' % (ename, m, sp, ref, w), 'sig': '%s %s ref=%s target=%s' % (m, ename, ref, sp)})
    # the target is a DESCRIBED field (Auto): parsing places the field by the value found in the data - which need not be what the
    # computation yields -, serializing by what the attribute reads as
    for ename, el in (('int', I(1)), ('data', D(C(2)))):
        for m, ref in (('at', None), ('at', 'begins'), ('shift', None), ('aligned', None), ('aligned', 'innermost-pkt')):
            k = dict(I(1), desc={'k': 'auto', 'expr': BIN('add', F('h'), C(1))})
            fields = [('h', I(1)), ('k', k), ('x', pos(el, m, F('k'), 'field', ref)), ('z', I(1))]
            for w in 'abg':
                K = PKT('K', fields, **(dict(generate_for_pack=False, generate_for_unpack=False) if w == 'g' else {}))
                P = PKT('W', [('pre', I(1)), ('body', R(K))]) if w == 'b' else K
                specs.append({'P': P, 'tag': '%s.%s(described field,%s) wrapper=%s' % (ename, m, ref, w), 'sig': '%s %s ref=%s target=described field' % (m, ename, ref)})
    # class-wide align and per-element alignment
    for al in (2, 3, 4, 6):
        for names in (['i1', 'i1'], ['i1', 'dn'], ['i1', 'sn'], ['i1', 'sr'], ['dn', 'r1'], ['i1', 'em'], ['m0', 'i2'], ['i1', 'o1'], ['i1', 'su'], ['i1', 'rs']):
            for w in 'abc':
                specs.append({'names': names, 'wrapper': w, 'opts': {'align': al}, 'tag': 'class-align %d %s %s' % (al, names, w), 'sig': 'class align'})
        for elem, en in ((I(1), 'int'), (R(alphabet.SUB), 'ref'), (D(C(2)), 'data')):
            K = PKT('K', [('h', I(1)), ('n', I(1)), ('l', S(elem, F('n'), aligned=al)), ('z', I(1))])
            specs.append({'P': K, 'tag': 'elem-aligned %d %s' % (al, en), 'sig': 'element alignment'})
            specs.append({'P': PKT('W', [('pre', I(1)), ('body', R(K))]), 'tag': 'elem-aligned %d %s b' % (al, en), 'sig': 'element alignment'})
            K2 = PKT('K', [('h', I(1)), ('l', S(elem, until={'u': 'len_eq', 'v': 2}, aligned=al)), ('z', I(1))])
            specs.append({'P': K2, 'tag': 'elem-aligned-until %d %s' % (al, en), 'sig': 'element alignment'})
    # an explicit per-element alignment inside a class that has a class-wide one: the explicit one places the elements
    for M in (2, 4):
        for N in (1, 2, 3, 4):
            if N == M:
                continue
            for elem, en in ((I(1), 'int'), (D(C(3)), 'data3')):
                K = PKT('K', [('h', I(1)), ('n', I(1)), ('l', S(elem, F('n'), aligned=N)), ('z', I(1))], align=M)
                specs.append({'P': K, 'tag': 'class-align %d elem-aligned %d %s' % (M, N, en), 'sig': 'element alignment under class align'})
                specs.append({'P': PKT('W', [('pre', I(1)), ('body', R(K))]), 'tag': 'class-align %d elem-aligned %d %s b' % (M, N, en), 'sig': 'element alignment under class align'})
    for sp in alphabet.boundary_specs():
        if str(sp.get('tag', '')).startswith('far '):
            specs.append(dict(sp, sig='far position'))
    # a byte-less field (Em / empty Data) placed beyond the data, followed by a non-empty field placed BEFORE it
    for far in (pos(EM(), 'at', C(6)), pos(EM(), 'aligned', C(4)), pos(D(C(0)), 'at', C(7)), pos(EM(), 'aligned', C(3), ref='innermost-pkt')):
        for back in (pos(I(1), 'at', C(2)), pos(D(C(2)), 'shift', C(-3)), pos(I(1), 'at', C(1), ref='begins')):
            K = PKT('K', [('h', I(2)), ('e', far), ('y', back)])
            specs.append({'P': K, 'tag': 'far %s then back %s' % (far['pos']['m'], back['pos']['m']), 'sig': 'byte-less field beyond the data'})
            specs.append({'P': PKT('W', [('pre', I(1)), ('body', R(K)), ('post', pos(I(1), 'at', C(1)))]), 'tag': 'far/back nested', 'sig': 'byte-less field beyond the data'})
    # two positioned fields (overlap / backwards)
    for m1 in (('at', C(4), 'const', None), ('aligned', C(4), 'const', None), ('shift', C(2), 'const', None)):
        for m2 in (('shift', C(-3), 'const', None), ('at', C(1), 'const', None), ('at', C(0), 'const', 'begins'), ('aligned', C(2), 'const', 'innermost-pkt')):
            K = PKT('K', [('h', I(1)), ('x', pos(I(1), *m1)), ('y', pos(D(C(2)), *m2)), ('e', pos(EM(), 'aligned', C(4)))])
            specs.append({'P': K, 'tag': 'two %s %s' % (m1[0], m2[0]), 'sig': 'two positioned fields'})
            specs.append({'P': PKT('W', [('pre', I(1)), ('body', R(K))]), 'tag': 'two %s %s b' % (m1[0], m2[0]), 'sig': 'two positioned fields'})
    return specs


def check_one(dc, st, raw, start):
    r = ea.ref_parse(dc.P, raw, start)
    nv = len(st.violations)
    r, u = ea.conformance(dc, st, raw, r, start)
    if len(st.violations) > nv:
        # re-label with the narrow positioning signature
        v = st.violations[-1]
        v['sig'] = 'parse %s: %s' % (dc.spec['sig'], v['sig'].split(':')[0])
        return
    if r[0] != 'ok' or not u or u[0] != 'ok':
        return
    if start:
        # the same bytes handed over as an instance of a bytes SUBCLASS (like bisturi.util.SeekableFile): same positions
        class Buf(bytes):
            pass
        ub = ea.impl_unpack(dc.K, Buf(raw), start)
        if ub[0] != 'ok' or ir.extract(ub[1], dc.P, dc.pkts) != r[1].pv:
            st.violate('parse %s: a bytes subclass as input is placed differently' % dc.spec['sig'],
                       '%s.unpack(Buf(%r), %d) -> %r, with plain bytes %r | %s' % (dc.P['name'], raw, start, ub[1] if ub[0] != 'ok' else ir.extract(ub[1], dc.P, dc.pkts), r[1].pv, dc.src.replace('\n', '; ')),
                       dc.case(raw=raw, start=start), dc.snippet('class Buf(bytes): pass\nprint(%s.unpack(Buf(%r), %d))' % (dc.P['name'], raw, start)))
            return
    st.add('states', (dc.spec['tag'], start, tuple(sorted((k, v) for k, v in r[1].starts.items()))[:6]))
    srcline = dc.src.replace('\n', '; ')
    call = '%s.unpack(%r%s).pack()' % (dc.P['name'], raw, (', %d' % start) if start else '')
    try:
        exp, sp = refsem.encode(dc.P, r[1].pv, dc.pkts)
        collide = False
    except refsem.Fail as f:
        collide = 'collision' in f.why
        if not collide:
            return
    except refsem.OutOfScope:
        st.inc('oos')
        return
    out = ea.impl_pack(u[1])
    st.inc('packs')
    if collide:
        if out[0] != 'err':
            st.violate('pack %s: overlap not rejected' % dc.spec['sig'], '%s -> %r but two fields are placed on the same byte | %s' % (call, out[1], srcline),
                       dc.case(raw=raw, start=start), dc.snippet('print(%s)' % call))
        return
    if out[0] != 'ok' or out[1] != exp:
        shown = out[1] if out[0] == 'ok' else getattr(out[1], 'original_error_message', out[1])
        st.violate('pack %s: wrong placement' % dc.spec['sig'], '%s -> %r, the positioning rule gives %r | %s' % (call, shown, exp, srcline),
                   dc.case(raw=raw, start=start), dc.snippet('print(%s)' % call))
        return
    # the PARSED packet gets another value in the field its position is computed from (k, when the declaration has one):
    # serializing follows the new value, not the position it was parsed from
    if start == 0 and dc.P['name'] == 'K' and 'k' in r[1].pv.vals and isinstance(r[1].pv.vals['k'], int):
        for newk in (r[1].pv.vals['k'] + 1, r[1].pv.vals['k'] + 2):
            pv2 = ir.PV(r[1].pv.name, dict(r[1].pv.vals, k=newk))
            try:
                exp2, _ = refsem.encode(dc.P, pv2, dc.pkts)
            except (refsem.Fail, refsem.OutOfScope):
                continue
            p2 = ea.impl_unpack(dc.K, raw)[1]
            p2.k = newk
            out2 = ea.impl_pack(p2)
            st.inc('packs')
            if out2[0] != 'ok' or out2[1] != exp2:
                shown = out2[1] if out2[0] == 'ok' else getattr(out2[1], 'original_error_message', out2[1])
                st.violate('pack %s: a parsed packet keeps the position it was parsed from' % dc.spec['sig'],
                           'p = %s.unpack(%r); p.k = %r; p.pack() -> %r, the positioning rule gives %r | %s' % (dc.P['name'], raw, newk, shown, exp2, srcline),
                           dc.case(raw=raw, start=0), dc.snippet('p = %s.unpack(%r); p.k = %r; print(p.pack())' % (dc.P['name'], raw, newk)))
                return
            break
    # pack -> unpack from values: the encoding parses back to the same values at offset 0
    u2 = ea.impl_unpack(dc.K, exp)
    try:
        r2 = refsem.parse(dc.P, exp)
    except (refsem.Fail, refsem.OutOfScope):
        return
    if r2.pv == r[1].pv and (u2[0] != 'ok' or ir.extract(u2[1], dc.P, dc.pkts) != r2.pv):
        st.violate('reparse %s' % dc.spec['sig'], 'unpack(%r) after pack differs from the reference %r | %s' % (exp, r2.pv, srcline),
                   dc.case(raw=exp, start=0), dc.snippet('print(%s.unpack(%r))' % (dc.P['name'], exp)))


def check_decl(dc, st, tier, only=None):
    if only is not None:
        check_one(dc, st, only['raw'], only.get('start', 0))
        return
    if dc.spec.get('extra_inputs'):
        # far positions (holes longer than 255 / 256 / 4096 bytes): the given inputs only
        for raw in dc.spec['extra_inputs']:
            check_one(dc, st, raw, 0)
        return
    L = 3 if tier == 'quick' else 4
    syms = [0, 1, 2, 3, 4] if tier == 'thorough' else [0, 1, 2, 4]
    offsets = (0, 1, 3) if tier == 'quick' else (0, 1, 2, 3)
    for s in alphabet.all_strings(syms, L):
        for tail in ((RAMP,) if tier == 'quick' else (RAMP, RAMP[:3])):
            for start in offsets:
                check_one(dc, st, PREFIX[:start] + s + tail, start)


def run(tier):
    st = ea.run(MODULE, tier)
    cov = ea.coverage(st, 'at x 3 references x 3 target spellings, shift x 4, aligned x 3 references x 4 targets on Int/Data/repeated/reference/Em/Int(3), '
                          'x 3 wrappers, class align 2/4, per-element alignment 2/4 (count and until), pairs of positioned fields; inputs = every control '
                          'prefix of length <=%d over the control alphabet followed by a position-revealing ramp, start offsets %s; '
                          'unpack vs reference (values, end), pack vs reference placement; states = distinct (program, offset, field start positions)' %
                      ((3, '0,1,3') if tier == 'quick' else (4, '0..3')), {'packs_compared': st.n.get('packs', 0)})
    return {'stats': st, 'coverage': cov, 'assumptions': ['reference positioning rule of DESIGN.md appendix A', 'alignment values >= 1, cursor >= 0']}


def replay(case):
    return ea.replay_decl(sys.modules[__name__], case)
