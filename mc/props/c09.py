"""C09  Deferred field expressions mean what the same Python expression means.

E-A over expression trees: all trees up to a nesting bound over the operator set are built with the REAL
deferred machinery (Python's own operator dispatch on real Field objects, so reflected methods are
exercised), compiled with compile_expr_into_callable and evaluated for all operand values; the oracle is
the same tree evaluated eagerly on plain values. Public channels (Data size, repeated count, when
condition) are driven through real classes and unpack().
"""
import itertools
import operator

from mc import common, mk
from mc.common import Stats

BIN = ['add', 'sub', 'mul', 'truediv', 'floordiv', 'mod', 'pow', 'le', 'lt', 'ge', 'gt', 'eq', 'ne',
       'and_', 'or_', 'xor', 'rshift', 'lshift']
UN = ['neg', 'inv', 'truth']
INT_VALUES = [-2, -1, 0, 1, 2, 3]
CONSTS = [0, 1, 2, 3]
SEQ_VALUES = [[], [0], [1, 2, 3]]
DATA_VALUES = [b'', b'ab']

BASE_SRC = mk.class_src('K', [
    'a = Int(1, signed=True)',
    'b = Int(1, signed=True)',
    'ns = Int(1)',
    's = Int(1).repeated(ns)',
    'nd = Int(1)',
    'd = Data(nd)',
])


# ---------------------------------------------------------------------------------------------
# trees
# ---------------------------------------------------------------------------------------------
def int_leaves():
    return [['f', 'a'], ['f', 'b']] + [['c', v] for v in CONSTS]


def is_const(t):
    return t[0] == 'c' or t[0] == 'sl' or t[0] == 'ct'


KIND_CONSTS = [['ct', []], ['ct', [5]], ['ct', [1, 2]], ['ct', [1, 2, 3]], ['ct', [[1, 2], 3]], ['c', None], ['c', 1.5], ['c', 'x'], ['c', 'ab'], ['c', b''],
               ['c', []], ['c', [1, 2]], ['c', True]]


def const_kind_family():
    """constants of every kind a Python expression may hold - tuples of length 0..3, None, floats, text, empty and non-empty
    strings and lists - as an operand in either position, as an option of chooses / if_true_then_else, and indexed afterwards"""
    out = []
    for kc in KIND_CONSTS:
        for f in (['f', 'a'], ['f', 's'], ['f', 'd']):
            for op in ('eq', 'ne', 'mul', 'add', 'lt', 'mod'):
                out.append(['bin', op, f, kc])
                out.append(['bin', op, kc, f])
        out.append(['bin', 'eq', ['bin', 'getitem', ['f', 's'], ['sl', None, 2]], kc])
        out.append(['bin', 'ne', kc, ['bin', 'getitem', ['f', 'd'], ['sl', 0, 1]]])
        out.append(['ch', 'list', ['f', 'a'], [kc, ['f', 'b']]])
        out.append(['ch', 'pos', ['f', 'a'], [['f', 'b'], kc, kc]])
        out.append(['ite', 'pos', ['f', 'a'], kc, ['f', 'b']])
        out.append(['ite', 'list', ['bin', 'lt', ['f', 'a'], ['f', 'b']], ['f', 'b'], kc])
        for other in (['ct', [3, 4]], ['c', 7]):
            ch = ['ch', 'dict', ['f', 'a'], {0: kc, 1: other}]
            out.append(ch)
            out.append(['bin', 'getitem', ch, ['c', 0]])
            out.append(['bin', 'getitem', ch, ['f', 'b']])
            out.append(['un', 'len', ch])
    return out


def depth1_int():
    out = []
    L = int_leaves()
    for op in BIN:
        for l in L:
            for r in L:
                if is_const(l) and is_const(r):
                    continue
                out.append(['bin', op, l, r])
    for op in UN:
        for x in (['f', 'a'], ['f', 'b']):
            out.append(['un', op, x])
    return out


def depth2_int(one_side_only):
    d1 = depth1_int()
    L = int_leaves()
    for op in BIN:
        for x in d1:
            for y in L:
                yield ['bin', op, x, y]
                yield ['bin', op, y, x]
        if not one_side_only:
            for x in d1:
                for y in d1:
                    yield ['bin', op, x, y]
    for op in UN:
        for x in d1:
            yield ['un', op, x]


def seq_family():
    out = []
    for sname in ('s', 'd'):
        sl = ['f', sname]
        idxs = [['c', 0], ['c', 1], ['c', -1], ['c', 5], ['f', 'a'], ['sl', 0, 1], ['sl', 1, None], ['sl', None, 2], ['sl', 0, 0], ['sl', -2, 3]]
        gets = [['bin', 'getitem', sl, i] for i in idxs]
        out.extend(gets)
        out.append(['un', 'len', sl])
        consts = [['c', v] for v in (SEQ_VALUES if sname == 's' else DATA_VALUES)]
        for c in consts:
            out.append(['bin', 'eq', sl, c])
            out.append(['bin', 'ne', sl, c])
            out.append(['bin', 'eq', c, sl])
        # one more level: the result used as an int / compared / indexed again
        for g in gets[:5]:
            for op in ('add', 'sub', 'lt', 'eq', 'mul'):
                out.append(['bin', op, g, ['f', 'b']])
                out.append(['bin', op, ['c', 2], g])
        for op in ('add', 'sub', 'floordiv', 'lshift', 'gt'):
            out.append(['bin', op, ['un', 'len', sl], ['f', 'b']])
            out.append(['bin', op, ['c', 3], ['un', 'len', sl]])
        cat = ['c', [9]] if sname == 's' else ['c', b'Q']
        for g in gets[5:]:
            # concatenation does not commute: constant + slice must stay constant-first
            out.append(['bin', 'add', cat, g])
            out.append(['bin', 'add', g, cat])
            out.append(['bin', 'eq', ['bin', 'add', cat, g], ['bin', 'add', g, cat]])
            out.append(['bin', 'mul', ['c', 2], g])
            out.append(['bin', 'getitem', ['bin', 'add', cat, g], ['c', 0]])
        for g in gets[5:]:
            out.append(['un', 'len', g])
            out.append(['bin', 'getitem', g, ['c', 0]])
            out.append(['bin', 'eq', g, consts[-1]])
        out.append(['bin', 'getitem', ['bin', 'getitem', sl, ['sl', 1, None]], ['f', 'a']])
    return out


def slice_family():
    """every constant slice: start, stop in {omitted, 0, 1, -1, 2}, step in {omitted, 1, 2, -1, -2, 0} (a zero step must fail the way
    Python's does), on the list and on the byte string, alone, measured and compared"""
    out = []
    for sname in ('s', 'd'):
        for a in (None, 0, 1, -1, 2):
            for b in (None, 0, 1, -1, 2):
                for st in (None, 1, 2, -1, -2, 0):
                    sl = ['sl', a, b] if st is None else ['sl', a, b, st]
                    g = ['bin', 'getitem', ['f', sname], sl]
                    out.append(g)
                    if st is not None:
                        out.append(['un', 'len', g])
                        out.append(['bin', 'eq', g, ['c', [3, 2, 1] if sname == 's' else b'ba']])
    return out


def nary_family():
    out = []
    opts_pool = [['c', 7], ['f', 'b'], ['bin', 'sub', ['c', 8], ['f', 'b']], ['bin', 'mul', ['f', 'a'], ['f', 'b']], ['c', b'xy']]
    sels = [['f', 'a'], ['bin', 'add', ['f', 'a'], ['c', 1]], ['bin', 'and_', ['f', 'a'], ['c', 1]], ['c', 1]]
    for sel in sels:
        for n in (1, 2, 3):
            for opts in itertools.permutations(opts_pool[:4], n):
                opts = [list(o) for o in opts]
                if sel[0] == 'c':
                    continue
                out.append(['ch', 'list', sel, opts])
                if n > 1:
                    out.append(['ch', 'pos', sel, opts])
                out.append(['ch', 'dict', sel, dict(zip([0, 1, 3][:n], opts))])
        out.append(['ch', 'dict', sel, {-1: ['c', 5], 2: ['f', 'b']}]) if sel[0] != 'c' else None
    # keyword form: keys are the ASCII bytes of the names
    for n in (1, 2):
        for opts in itertools.permutations(opts_pool[:3], n):
            out.append(['ch', 'kw', ['f', 'd'], dict(zip(['ab', 'cd'][:n], [list(o) for o in opts]))])
            out.append(['ch', 'kw', ['bin', 'getitem', ['f', 'd'], ['sl', 0, 2]], dict(zip(['cd', 'ab'][:n], [list(o) for o in opts]))])
    conds = [['f', 'a'], ['bin', 'lt', ['f', 'a'], ['f', 'b']], ['bin', 'eq', ['f', 'a'], ['c', 1]], ['un', 'truth', ['f', 'b']],
             ['bin', 'gt', ['c', 1], ['f', 'a']], ['un', 'len', ['f', 's']], ['bin', 'and_', ['f', 'a'], ['c', 2]],
             # conditions that are not numbers: byte strings, lists, slices (empty ones are false)
             ['f', 'd'], ['f', 's'], ['bin', 'getitem', ['f', 's'], ['sl', 1, None]], ['bin', 'getitem', ['f', 'd'], ['sl', None, 1]],
             ['bin', 'getitem', ['f', 's'], ['c', 0]]]
    for c in conds:
        for x, y in itertools.permutations(opts_pool, 2):
            out.append(['ite', 'pos', c, list(x), list(y)])
            out.append(['ite', 'list', c, list(x), list(y)])
    # nested n-ary
    out.append(['ch', 'list', ['ch', 'list', ['f', 'a'], [['c', 1], ['c', 0], ['f', 'b']]], [['c', 10], ['f', 'b'], ['c', 30]]])
    out.append(['ite', 'pos', ['ch', 'dict', ['f', 'a'], {0: ['c', 0], 1: ['f', 'b']}], ['bin', 'sub', ['c', 8], ['f', 'a']], ['f', 'b']])
    out.append(['bin', 'sub', ['c', 100], ['ch', 'pos', ['f', 'a'], [['c', 1], ['f', 'b'], ['c', 3]]]])
    out.append(['bin', 'floordiv', ['ite', 'pos', ['f', 'a'], ['c', 9], ['f', 'b']], ['f', 'b']])
    return [o for o in out if o is not None]


# ---------------------------------------------------------------------------------------------
# the two meanings
# ---------------------------------------------------------------------------------------------
def build(t, fields):
    """the deferred expression, built the way a user writes it"""
    k = t[0]
    if k == 'f':
        return fields[t[1]]
    if k == 'c':
        return t[1]
    if k == 'ct':
        return tuple(t[1])
    if k == 'sl':
        return slice(*t[1:])
    if k == 'bin':
        l, r = build(t[2], fields), build(t[3], fields)
        return getattr(operator, t[1])(l, r)
    if k == 'un':
        x = build(t[2], fields)
        if t[1] == 'truth':
            return x.__nonzero__()
        if t[1] == 'len':
            return x.__len__()
        return getattr(operator, t[1])(x)
    if k == 'ch':
        x = build(t[2], fields)
        if t[1] == 'list':
            return x.chooses([build(o, fields) for o in t[3]])
        if t[1] == 'pos':
            return x.chooses(*[build(o, fields) for o in t[3]])
        if t[1] == 'dict':
            return x.chooses({int(kk): build(o, fields) for kk, o in t[3].items()})
        if t[1] == 'kw':
            return x.chooses(**{kk: build(o, fields) for kk, o in t[3].items()})
    if k == 'ite':
        c = build(t[2], fields)
        a, b = build(t[3], fields), build(t[4], fields)
        if t[1] == 'pos':
            return c.if_true_then_else(a, b)
        return c.if_true_then_else([a, b])
    raise ValueError(t)


def eager(t, vals):
    """the same Python expression applied eagerly to plain values"""
    k = t[0]
    if k == 'f':
        return vals[t[1]]
    if k == 'c':
        return t[1]
    if k == 'ct':
        return tuple(t[1])
    if k == 'sl':
        return slice(*t[1:])
    if k == 'bin':
        l, r = eager(t[2], vals), eager(t[3], vals)
        return getattr(operator, t[1])(l, r)
    if k == 'un':
        x = eager(t[2], vals)
        if t[1] == 'len':
            return len(x)
        return getattr(operator, t[1])(x)
    if k == 'ch':
        x = eager(t[2], vals)
        if t[1] in ('list', 'pos'):
            opts = [eager(o, vals) for o in t[3]]
            return (opts if t[1] == 'list' else tuple(opts))[x]
        if t[1] == 'dict':
            return {int(kk): eager(o, vals) for kk, o in t[3].items()}[x]
        if t[1] == 'kw':
            return {kk.encode('ascii'): eager(o, vals) for kk, o in t[3].items()}[x]
    if k == 'ite':
        c = eager(t[2], vals)
        a, b = eager(t[3], vals), eager(t[4], vals)
        return a if c else b
    raise ValueError(t)


def render(t):
    """source text of the deferred expression (for the public channel and for the replay snippet)"""
    k = t[0]
    if k == 'f':
        return t[1]
    if k == 'c':
        return repr(t[1])
    if k == 'ct':
        return repr(tuple(t[1]))
    if k == 'sl':
        return ':'.join('' if x is None else str(x) for x in t[1:])
    sym = {'add': '+', 'sub': '-', 'mul': '*', 'truediv': '/', 'floordiv': '//', 'mod': '%', 'pow': '**', 'le': '<=', 'lt': '<',
           'ge': '>=', 'gt': '>', 'eq': '==', 'ne': '!=', 'and_': '&', 'or_': '|', 'xor': '^', 'rshift': '>>', 'lshift': '<<'}
    if k == 'bin':
        if t[1] == 'getitem':
            return '%s[%s]' % (render(t[2]) if t[2][0] == 'f' else '(' + render(t[2]) + ')', render(t[3]))
        return '(%s %s %s)' % (render(t[2]), sym[t[1]], render(t[3]))
    if k == 'un':
        x = render(t[2])
        if t[1] == 'neg':
            return '(-%s)' % x
        if t[1] == 'inv':
            return '(~%s)' % x
        if t[1] == 'truth':
            return '%s.__nonzero__()' % x
        return '%s.__len__()' % x
    if k == 'ch':
        x = render(t[2])
        if t[1] == 'list':
            return '%s.chooses([%s])' % (x, ', '.join(render(o) for o in t[3]))
        if t[1] == 'pos':
            return '%s.chooses(%s)' % (x, ', '.join(render(o) for o in t[3]))
        if t[1] == 'dict':
            return '%s.chooses({%s})' % (x, ', '.join('%s: %s' % (kk, render(o)) for kk, o in t[3].items()))
        return '%s.chooses(%s)' % (x, ', '.join('%s=%s' % (kk, render(o)) for kk, o in t[3].items()))
    if k == 'ite':
        a, b = render(t[3]), render(t[4])
        return '%s.if_true_then_else(%s)' % (render(t[2]), ('%s, %s' % (a, b)) if t[1] == 'pos' else '[%s, %s]' % (a, b))
    raise ValueError(t)


def uses(t, name):
    if isinstance(t, dict):
        return any(uses(x, name) for x in t.values())
    if isinstance(t, (list, tuple)):
        if len(t) == 2 and t[0] == 'f':
            return t[1] == name
        return any(uses(x, name) for x in t if isinstance(x, (list, tuple, dict)))
    return False


def outcome(fn):
    try:
        return ('ok', fn())
    except Exception as e:
        return ('exc', type(e))


def same(o1, o2):
    if o1[0] != o2[0]:
        return False
    if o1[0] == 'exc':
        return o1[1] is o2[1]
    a, b = o1[1], o2[1]
    if type(a) is not type(b):
        return False
    if a != a and b != b:
        return True
    return a == b


BIG_VALUES = [7, 8, 31, 32, 33, 63, 64, 65, 100, 127, -128]


def value_sets(t, big=False):
    av = INT_VALUES + (BIG_VALUES if big else [])
    bv = (INT_VALUES + (BIG_VALUES if big else [])) if uses(t, 'b') else [1]
    sv = SEQ_VALUES if uses(t, 's') else [[1, 2, 3]]
    dv = DATA_VALUES if uses(t, 'd') else [b'ab']
    if not uses(t, 'a'):
        av = [1]
    return [dict(a=a, b=b, s=s, d=d) for a in av for b in bv for s in sv for d in dv]


def snippet(t, vals, channel):
    return (mk.HEADER + BASE_SRC + 'from bisturi.deferred import compile_expr_into_callable\n'
            'f = {n: fld for n, fld, _, _ in K.get_fields()}\na, b, s, d = f["a"], f["b"], f["s"], f["d"]\n'
            'expr = %s\np = K(a=%r, b=%r, s=%r, d=%r)\nprint(compile_expr_into_callable(expr)(pkt=p))  # channel: %s\n'
            % (render(t), vals['a'], vals['b'], vals['s'], vals['d'], channel))


# ---------------------------------------------------------------------------------------------
# channel 1: compile_expr_into_callable
# ---------------------------------------------------------------------------------------------
def check_tree_direct(t, K, fields, compile_expr_into_callable, st, fam):
    try:
        if fam == 'const-kinds':
            # Python's own operator dispatch decides whether such a text IS a deferred expression: a constant whose type refuses the
            # operand outright (tuple * field raises instead of deferring to the field) or folds it on the spot (b'' % field treats the
            # field as a mapping) leaves nothing deferred to judge
            import traceback
            import bisturi
            from bisturi.deferred import UnaryExpr, BinaryExpr, NaryExpr
            from bisturi.field import Field
            try:
                expr = build(t, fields)
            except Exception as e:
                if not any(fr.filename.startswith(bisturi.__path__[0]) for fr in traceback.extract_tb(e.__traceback__)):
                    st.inc('not_expressible')
                    return
                raise
            if not isinstance(expr, (UnaryExpr, BinaryExpr, NaryExpr, Field)):
                st.inc('not_expressible')
                return
        else:
            expr = build(t, fields)
        fn = compile_expr_into_callable(expr)
    except Exception as e:
        st.violate('build-fails ' + fam, 'building/compiling %s raised %r' % (render(t), e), {'tree': t, 'channel': 'direct'})
        return
    st.inc('trees')
    # depth-1 trees also see operands at word boundaries (shift counts and exponents of 31..65, 100, 127, -128)
    for vals in value_sets(t, big=(fam == 'int-d1')):
        p = K(a=vals['a'], b=vals['b'], ns=len(vals['s']), s=list(vals['s']), nd=len(vals['d']), d=vals['d'])
        exp = outcome(lambda: eager(t, vals))
        got = outcome(lambda: fn(pkt=p))
        st.inc('evaluations')
        st.add('outcomes', (exp[0], exp[1].__name__ if exp[0] == 'exc' else type(exp[1]).__name__))
        if not same(exp, got):
            opn = t[1] if t[0] in ('bin', 'un', 'ch', 'ite') else t[0]
            st.violate('value-mismatch %s root=%s' % (fam, opn),
                       '%s with a=%r b=%r s=%r d=%r: deferred -> %r, eager -> %r' % (render(t), vals['a'], vals['b'], vals['s'], vals['d'], got, exp),
                       {'tree': t, 'vals': vals, 'channel': 'direct'}, snippet(t, vals, 'direct'))
            return
        # evaluating twice must give the same (the evaluator keeps a shared argument list)
        got2 = outcome(lambda: fn(pkt=p))
        if not same(got, got2):
            st.violate('impure-evaluator ' + fam, '%s: second evaluation differs %r vs %r' % (render(t), got, got2),
                       {'tree': t, 'vals': vals, 'channel': 'direct'}, snippet(t, vals, 'direct'))
            return


# ---------------------------------------------------------------------------------------------
# channel 2: the public spellings, through unpack()
# ---------------------------------------------------------------------------------------------
PUB_TAIL = b'Z' * 40


def public_src(t):
    e = render(t)
    return mk.class_src('K', [
        'a = Int(1, signed=True)',
        'b = Int(1, signed=True)',
        'ns = Int(1)',
        's = Int(1).repeated(ns)',
        'nd = Int(1)',
        'd = Data(nd)',
        'r = Data(0).repeated(count=%s)' % e,
        'w = Data(0).when(%s)' % e,
        'z = Data(%s)' % e,
    ])


def raw_for(vals):
    return (bytes([vals['a'] & 0xff, vals['b'] & 0xff, len(vals['s'])]) + bytes(vals['s']) +
            bytes([len(vals['d'])]) + vals['d'] + PUB_TAIL)


def check_tree_public(t, st, fam):
    from bisturi.packet import PacketError
    src = public_src(t)
    with mk.World() as w:
        try:
            K = w.module(src).K
        except Exception as e:
            st.violate('public-definition-fails ' + fam, 'class with %s raised %r' % (render(t), e), {'tree': t, 'channel': 'public'}, mk.HEADER + src)
            return
        st.inc('public_classes')
        for vals in value_sets(t):
            raw = raw_for(vals)
            exp = outcome(lambda: eager(t, vals))
            st.inc('evaluations')
            try:
                p = K.unpack(raw)
                got = ('ok', (len(p.r), p.w, p.z))
            except PacketError as e:
                got = ('err', e.fields_stack[0][1])
            except Exception as e:
                st.violate('public-wrong-exception ' + fam, '%s: unpack raised %r instead of PacketError' % (render(t), e),
                           {'tree': t, 'vals': vals, 'channel': 'public'}, mk.HEADER + src + 'K.unpack(%r)\n' % raw)
                return
            # expected observable
            if exp[0] == 'exc':
                want = ('err', 'r')
            else:
                v = exp[1]
                if not isinstance(v, int):
                    want = ('err', 'r')                 # a count must be an integer: range(v) fails
                else:
                    want_r = max(int(v), 0)
                    want_w = b'' if v else None
                    if v < 0 or v > len(PUB_TAIL):
                        want = ('err', 'z')
                    else:
                        want = ('ok', (want_r, want_w, PUB_TAIL[:int(v)]))
            if want != got:
                st.violate('public-mismatch %s' % fam,
                           '%s with a=%r b=%r s=%r d=%r: eager value %r => expected %r, unpack gave %r' % (
                               render(t), vals['a'], vals['b'], vals['s'], vals['d'], exp, want, got),
                           {'tree': t, 'vals': vals, 'channel': 'public'}, mk.HEADER + src + 'p = K.unpack(%r)\nprint(len(p.r), p.w, p.z)\n' % raw)
                return


SHARED_SRC = 'TABLE = {1: Data(1), 2: Data(2), 4: Int(2)}\n' + mk.class_src('K', [
    'kind = Int(1)', 'src = Ref(kind.chooses(TABLE), default=b"")', 'dst = Ref(kind.chooses(TABLE), default=b"")', 'z = Int(1)']) + \
    mk.class_src('K2', ['h = Int(1)', 'kind = Int(1)', 'addr = Ref(kind.chooses(TABLE), default=b"")'])


def check_shared_table(st):
    """x.chooses(TABLE) evaluates to TABLE[x] for EVERY expression built over the same table of constant Field
    objects (two Ref fields of one class, a second class), in any order of first use"""
    cases = [(1, b'A', b'B'), (2, b'AB', b'CD'), (4, 0x4142, 0x4344), (1, b'C', b'D'), (3, None, None)]
    for order in ((0, 1, 2, 3, 4), (2, 1, 0, 4, 3), (4, 3, 2, 1, 0)):
        with mk.World() as w:
            m = w.module(SHARED_SRC)
            st.inc('public_classes')
            for ci in order:
                kind, a, b = cases[ci]
                enc = lambda v: v if isinstance(v, bytes) else (bytes([v >> 8, v & 0xff]) if v is not None else b'')
                raw = bytes([kind]) + enc(a) + enc(b) + b'\x09'
                raw2 = b'\x07' + bytes([kind]) + enc(a)
                st.inc('evaluations')
                for cls, r, want in ((m.K, raw, (a, b, 9)), (m.K2, raw2, (a,))):
                    try:
                        p = cls.unpack(r)
                        got = (p.src, p.dst, p.z) if cls is m.K else (p.addr,)
                    except Exception as e:
                        got = type(e).__name__
                    exp = want if kind != 3 else 'PacketError'
                    if got != exp:
                        st.violate('shared option table', '%s.unpack(%r) -> %r, expected %r (first uses in order %r) | %s' % (
                            cls.__name__, r, got, exp, order, SHARED_SRC.replace('\n', '; ')), {'shared_table': list(order)}, mk.HEADER + SHARED_SRC)
                        return


TYPED = [2, 2.0, True, 1, 1.0, 0, False, 0.0, 3, 3.0]


def sibling_groups():
    """groups of expressions over the SAME field objects that differ only in constants that compare equal but are of a
    different type (2 / 2.0, 1 / True / 1.0, 0 / False / 0.0): a program declares several of them side by side"""
    groups = []
    for op in BIN:
        for rev in (False, True):
            for order in (TYPED, TYPED[::-1]):
                g = []
                for c in order:
                    l, r = ['f', 'a'], ['c', c]
                    g.append(['bin', op, r, l] if rev else ['bin', op, l, r])
                groups.append(g)
    for order in (TYPED, TYPED[::-1]):
        groups.append([['bin', 'mul', ['bin', 'add', ['f', 'a'], ['f', 'b']], ['c', c]] for c in order])
        groups.append([['ch', 'list', ['f', 'a'], [['c', c], ['f', 'b']]] for c in order])
        groups.append([['ite', 'pos', ['f', 'a'], ['c', c], ['f', 'b']] for c in order])
    return groups


def check_siblings(group, st, compile_expr_into_callable):
    """all expressions of the group compiled one after the other over the fields of ONE fresh class, then each evaluated"""
    with mk.World() as w:
        K = w.module(BASE_SRC).K
        fields = {n: f for n, f, _, _ in K.get_fields()}
        fns = []
        for t in group:
            try:
                fns.append(compile_expr_into_callable(build(t, fields)))
            except Exception as e:
                st.violate('build-fails siblings', 'building/compiling %s raised %r' % (render(t), e), {'siblings': group})
                return
        st.inc('trees', len(group))
        for gi, (t, fn) in enumerate(zip(group, fns)):
            for vals in value_sets(t):
                p = K(a=vals['a'], b=vals['b'], ns=len(vals['s']), s=list(vals['s']), nd=len(vals['d']), d=vals['d'])
                exp = outcome(lambda: eager(t, vals))
                got = outcome(lambda: fn(pkt=p))
                st.inc('evaluations')
                if not same(exp, got):
                    st.violate('value-mismatch siblings root=%s' % t[1],
                               '%s with a=%r b=%r, compiled after %s: deferred -> %r, eager -> %r' % (
                                   render(t), vals['a'], vals['b'], ', '.join(render(x) for x in group[:gi]) or 'nothing', got, exp),
                               {'siblings': group}, snippet(t, vals, 'direct, after compiling ' + '; '.join(render(x) for x in group[:gi])))
                    return


def sibling_public_src(t1, t2):
    return mk.class_src('K', [
        'a = Int(1, signed=True)',
        'b = Int(1, signed=True)',
        'r = Data(0).repeated(count=%s)' % render(t1),
        'w = Data(0).when(%s)' % render(t1),
        'z = Data(%s)' % render(t2),
    ])


def check_sibling_public(t1, t2, st):
    """the two expressions side by side in one declared class, through unpack()"""
    from bisturi.packet import PacketError
    src = sibling_public_src(t1, t2)
    with mk.World() as w:
        try:
            K = w.module(src).K
        except Exception as e:
            st.violate('public-definition-fails siblings', 'class raised %r' % (e,), {'sibling_public': [t1, t2]}, mk.HEADER + src)
            return
        st.inc('public_classes')
        for a in INT_VALUES:
            vals = dict(a=a, b=1, s=[], d=b'')
            raw = bytes([a & 0xff, 1]) + PUB_TAIL
            e1 = outcome(lambda: eager(t1, vals))
            e2 = outcome(lambda: eager(t2, vals))
            st.inc('evaluations')
            try:
                p = K.unpack(raw)
                got = ('ok', (len(p.r), p.w, p.z))
            except PacketError as e:
                got = ('err', e.fields_stack[0][1])
            except Exception as e:
                got = ('exc', type(e).__name__)
            if e1[0] == 'exc' or not isinstance(e1[1], int):
                want = ('err', 'r')
            elif e2[0] == 'exc' or not isinstance(e2[1], int) or e2[1] < 0 or e2[1] > len(PUB_TAIL):
                want = ('err', 'z')
            else:
                want = ('ok', (max(int(e1[1]), 0), b'' if e1[1] else None, PUB_TAIL[:int(e2[1])]))
            if want != got:
                st.violate('public-mismatch siblings', '%s (count, condition) next to %s (size) with a=%r: expected %r, unpack gave %r' % (
                    render(t1), render(t2), a, want, got), {'sibling_public': [t1, t2]},
                    mk.HEADER + src + 'p = K.unpack(%r)\nprint(len(p.r), p.w, p.z)\n' % raw)
                return


def sibling_public_pairs():
    out = []
    for op in ('mul', 'add', 'floordiv', 'mod', 'sub', 'and_', 'lshift', 'pow'):
        for c1, c2 in ((2, 2.0), (2.0, 2), (1, True), (True, 1), (1.0, 1), (0, False), (False, 0), (0.0, 0), (3, 3.0)):
            out.append((['bin', op, ['f', 'a'], ['c', c1]], ['bin', op, ['f', 'a'], ['c', c2]]))
    return out


def families(tier):
    fams = [('int-d1', depth1_int()), ('seq', seq_family()), ('nary', nary_family()), ('const-kinds', const_kind_family()), ('slices', slice_family())]
    return fams


def public_trees(tier):
    d1 = depth1_int()
    L = int_leaves()
    out = [('int-d1', t) for t in d1]
    sel = ['sub', 'floordiv', 'lshift', 'lt'] if tier == 'thorough' else ['sub', 'lt']
    base = [t for t in d1 if t[0] == 'bin' and t[1] in ('sub', 'floordiv', 'lshift', 'lt', 'mul') and not (is_const(t[2]) and t[2][1] != 3) and not (is_const(t[3]) and t[3][1] != 2)]
    for op in sel:
        for x in base:
            for y in (['f', 'b'], ['c', 3]):
                out.append(('int-d2', ['bin', op, x, y]))
                out.append(('int-d2', ['bin', op, y, x]))
    for t in seq_family():
        out.append(('seq', t))
    nf = nary_family()
    step = 1 if tier == 'thorough' else 7
    for t in nf[::step]:
        out.append(('nary', t))
    return out


def _shard(shard, nshards, payload):
    from bisturi.deferred import compile_expr_into_callable
    tier = payload['tier']
    st = Stats()
    if payload.get('o'):
        # under python -O: all trees of depth <= 1, the sequence and n-ary families through the direct channel, a thinned public channel
        with mk.World() as w:
            K = w.module(BASE_SRC).K
            fields = {n: f for n, f, _, _ in K.get_fields()}
            idx = 0
            for fam, trees in families(tier):
                for t in trees:
                    idx += 1
                    if idx % nshards == shard:
                        check_tree_direct(t, K, fields, compile_expr_into_callable, st, fam)
        for i, (fam, t) in enumerate(public_trees(tier)[::9]):
            if i % nshards == shard:
                check_tree_public(t, st, fam)
        return st
    with mk.World() as w:
        K = w.module(BASE_SRC).K
        fields = {n: f for n, f, _, _ in K.get_fields()}
        idx = 0
        for fam, trees in families(tier):
            for t in trees:
                idx += 1
                if idx % nshards != shard:
                    continue
                check_tree_direct(t, K, fields, compile_expr_into_callable, st, fam)
                if idx % 211 == common.SEED % 211:
                    st.sample({'expr': render(t), 'family': fam})
        for t in depth2_int(one_side_only=(tier == 'quick')):
            idx += 1
            if idx % nshards != shard:
                continue
            check_tree_direct(t, K, fields, compile_expr_into_callable, st, 'int-d2')
            if idx % 50021 == common.SEED % 50021:
                st.sample({'expr': render(t), 'family': 'int-d2'})
    for i, (fam, t) in enumerate(public_trees(tier)):
        if i % nshards != shard:
            continue
        check_tree_public(t, st, fam)
    if shard == 0:
        check_shared_table(st)
    for i, g in enumerate(sibling_groups()):
        if i % nshards == shard:
            check_siblings(g, st, compile_expr_into_callable)
    for i, (t1, t2) in enumerate(sibling_public_pairs()):
        if i % nshards == shard:
            check_sibling_public(t1, t2, st)
    return st


def run(tier):
    st = common.merge_all(common.run_sharded(_shard, {'tier': tier}))
    from mc import ea_o
    so = ea_o.run_shard('mc.props.c09', '_shard', {'tier': 'quick', 'o': True})      # depth-1 trees and the families once more under python -O
    st.merge(so)
    st.notes.extend(so.notes)
    cov = {
        'states': st.count('outcomes'),
        'transitions': st.n.get('evaluations', 0),
        'traces_validated_against_impl': st.n.get('evaluations', 0),
        'evaluations': st.n.get('evaluations', 0),
        'distinct_nontrivial': st.count('outcomes'),
        'programs': st.n.get('trees', 0) + st.n.get('public_classes', 0),
        'trees': st.n.get('trees', 0),
        'public_classes': st.n.get('public_classes', 0),
        'rule': 'all expression trees of depth <=1 and %s over 18 binary operators in every operand order (field/const/sub-expression), '
                'neg/invert/truth, plus the sequence family (index, constant slices, len, ==/!=) and the n-ary family (chooses in list/positional/'
                'dict/keyword form, if_true_then_else), plus every constant slice with start/stop in {omitted, 0, 1, -1, 2} and step in {omitted, 1, 2, -1, -2, 0}, plus constants of every kind (tuples of length 0..3, None, float, text, empty/non-empty strings and lists) as operand in either position, as option and indexed afterwards, plus groups of sibling expressions over the same fields that differ only in equal-comparing constants of different type (2/2.0, 1/True/1.0, 0/False/0.0) compiled side by side; operands a,b in -2..3 (depth-1 trees also 7, 8, 31..33, 63..65, 100, 127, -128), s in [],[0],[1,2,3], d in b"",b"ab"; '
                'states = distinct (ok/exception, result type or exception class); the depth-1 trees and the families once more in child interpreters started with -O' % (
                    'all depth-2 trees' if tier == 'thorough' else 'depth-2 trees nested on one side'),
        'exhaustive': True,
        'bounds': {'depth': 2, 'operand_values': INT_VALUES},
        'samples': st.samples,
    }
    return {'stats': st, 'coverage': cov,
            'assumptions': ['same exception kind = same exception class through compile_expr_into_callable; PacketError naming the field through unpack()',
                            'a count/size that evaluates to a non-integer is an error through the public channel']}


def replay(case):
    from bisturi.deferred import compile_expr_into_callable
    st = Stats()
    if 'shared_table' in case:
        check_shared_table(st)
        return st.violations
    if 'siblings' in case:
        check_siblings(case['siblings'], st, compile_expr_into_callable)
        return st.violations
    if 'sibling_public' in case:
        check_sibling_public(case['sibling_public'][0], case['sibling_public'][1], st)
        return st.violations
    t = case['tree']
    if case.get('channel') == 'public':
        check_tree_public(t, st, 'replay')
    else:
        with mk.World() as w:
            K = w.module(BASE_SRC).K
            fields = {n: f for n, f, _, _ in K.get_fields()}
            check_tree_direct(t, K, fields, compile_expr_into_callable, st, 'replay')
    return st.violations
