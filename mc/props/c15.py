"""C15  A class behaves per its current declaration whatever the code cache holds.

E-B on E-C(ii): ALL histories up to a depth bound of define(declaration, options) / new process / clock
tick / bytecode toggle / forget sources, executed on the real generate_code + importlib over real files
with harness-controlled time stamps and virtual processes. After every definition the new class, and
every class defined earlier in the same process, must behave per ITS OWN declaration on a battery.
Violating traces and a share of passing ones are replayed with real interpreter processes.
"""
import itertools
import os
import shutil

from mc import common, cache, fsx
from mc.common import Stats

DEFS = [('A', 'def'), ('A2', 'def'), ('E', 'def'), ('C', 'def'), ('V', 'def'), ('A', 'noann'), ('A2', 'noann'), ('A', 'novec'),
        ('C', 'novec'), ('A', 'off'), ('A2', 'uonly'), ('B', 'ponly'), ('E2', 'def'), ('A', 'uonly')]
CTRL = [('newproc',), ('tick',), ('forget',), ('bytecode',)]
CLOCK0 = 1500000000


DESC = [('D', 'def'), ('D2', 'def'), ('D', 'novec')]     # the same per-field code, another descriptor: only the sync prologue of pack differs
BIG = [('L', 'def'), ('L2', 'def'), ('L', 'uonly')]     # 41 fields: generated code of more than 4 KiB per direction, a cache file of more than 8 KiB


NAMED = [('U', 'def'), ('U2', 'def'), ('U', 'novec')]   # field names that are not ascii (each with one letter beyond ascii)


FACTORY = [('M', 'def'), ('M2', 'def'), ('M', 'novec')]   # one class statement, the same generated text, different field objects


REUSE = [('A', 'def'), ('A2', 'def'), ('B', 'def')]     # definitions only, one process after a warm-up: longer sequences within ONE process


def alphabet(tier, big=False):
    if big == 'reuse':
        return [('define',) + d for d in REUSE]
    if big == 'factory':
        return [('define',) + d for d in FACTORY] + CTRL
    if big == 'names':
        return [('define',) + d for d in NAMED] + CTRL
    if big == 'desc':
        return [('define',) + d for d in DESC] + CTRL
    if big:
        return [('define',) + d for d in BIG] + CTRL
    defs = DEFS if tier == 'thorough' else DEFS[:7] + DEFS[9:]
    return [('define',) + d for d in defs] + CTRL


def segments_of(hist, start_bytecode=True):
    # the bytecode setting a process STARTS with is the one in force when it was created
    out = []
    cur_wb = start_bytecode
    proc_start = start_bytecode
    ops = []
    for op in hist:
        if op[0] == 'newproc':
            out.append((proc_start, ops))
            ops = []
            proc_start = cur_wb
        elif op[0] == 'bytecode':
            cur_wb = not cur_wb
            if ops:
                ops.append(('bytecode', cur_wb))
            else:
                proc_start = cur_wb
        else:
            ops.append(op)
    out.append((proc_start, ops))
    return out


def run_history(hist, keep=False):
    """returns (list of (description, decl, outcome, reason), final state key, transitions, scratch or None)"""
    scratch = common.new_scratch_dir('c15')
    cache.write_source(scratch)
    try:
        segs = segments_of(hist)
        run, results = cache.seq_run(scratch, CLOCK0, segs)
        bad = []
        trans = 0
        for pi, res in enumerate(results):
            for (i, decl, out) in res:
                trans += 1
                why = cache.judge(decl, out)
                if why:
                    bad.append((pi, i, decl, out, why))
        if run.error:
            bad.append((None, None, None, None, 'HARNESS: ' + run.error))
        key = (cache.snap_key(cache.snapshot_dir(scratch)), run.clock - CLOCK0)
        return bad, key, trans, len(run.log)
    finally:
        if not keep:
            shutil.rmtree(scratch, ignore_errors=True)


def real_replay(hist):
    """replays the history with one REAL interpreter process per definition group: every define of the
    history runs in a real process when it is the first definition of its (virtual) process; histories
    with several definitions in one process are replayed up to the last 'newproc' in the harness and the
    final process for real. Returns the outcome of the last definition, or None if not applicable."""
    segs = segments_of(hist)
    last_wb, last_ops = segs[-1]
    defs = [op for op in last_ops if op[0] == 'define']
    if len(defs) != 1 or last_ops[-1][0] != 'define' or any(op[0] == 'bytecode' for op in last_ops):
        return None
    scratch = common.new_scratch_dir('c15r')
    cache.write_source(scratch)
    try:
        run, results = cache.seq_run(scratch, CLOCK0, segs[:-1]) if len(segs) > 1 else (None, [])
        clock = run.clock if run else CLOCK0
        for op in last_ops[:-1]:
            if op[0] == 'tick':
                clock += 1
            elif op[0] == 'forget':
                root = cache.pkts_dir(scratch)
                if os.path.isdir(root):
                    for f in os.listdir(root):
                        if f.endswith('.py'):
                            os.remove(os.path.join(root, f))
        d = defs[0]
        return cache.real_define(scratch, clock, d[1], d[2], last_wb)
    finally:
        shutil.rmtree(scratch, ignore_errors=True)


def describe(hist):
    return ' ; '.join('define(%s,%s)' % (op[1], op[2]) if op[0] == 'define' else op[0] for op in hist)


def signature(hist, pi, i, decl, why):
    """narrow mechanism signature: what kind of cache content was in front of the failing definition"""
    flat = [op[0] for op in hist]
    tags = []
    if 'forget' in flat:
        tags.append('sources removed, bytecode left')
    if 'failed' in why:
        tags.append('definition fails')
    else:
        tags.append('behaves per another declaration')
    return ', '.join(tags)


def _shard(shard, nshards, payload):
    st = Stats()
    ops = alphabet(payload['tier'], payload.get('big', False))
    depth = payload['depth']
    idx = 0
    replayed = 0
    seeds = [(), (('define', 'A', 'def'), ('newproc',)), (('define', 'A2', 'noann'), ('newproc',), ('define', 'A2', 'noann'), ('newproc',))]
    if payload.get('big') == 'reuse':
        seeds = [(('define', 'A', 'def'), ('newproc',)), (('define', 'B', 'def'), ('newproc',))]
    elif payload.get('big') == 'factory':
        seeds = [(), (('define', 'M', 'def'), ('newproc',))]
    elif payload.get('big') == 'names':
        seeds = [(), (('define', 'U2', 'def'), ('newproc',), ('define', 'U2', 'def'), ('newproc',))]
    elif payload.get('big') == 'desc':
        seeds = [(), (('define', 'D2', 'def'), ('newproc',), ('define', 'D2', 'def'), ('newproc',))]
    elif payload.get('big'):
        seeds = [(), (('define', 'L', 'def'), ('newproc',), ('define', 'L', 'def'), ('newproc',))]
    for d, pre, tail in [(d, pre, tail) for pre in seeds for d in range(1, depth + 1) for tail in itertools.product(ops, repeat=d)]:
        for hist in (pre + tail,):
            if hist[-1][0] != 'define':
                continue        # nothing is observed after the last definition
            if pre and d < depth:
                continue        # the seeded passes only add the longest histories
            idx += 1
            if idx % nshards != shard:
                continue
            bad, key, trans, steps = run_history(hist)
            st.inc('histories')
            st.inc('transitions', steps)
            st.inc('definitions', trans)
            st.add('states', key)
            st.add('outcomes', bool(bad))
            for (pi, i, decl, out, why) in bad:
                if why.startswith('HARNESS'):
                    st.notes.append(why)
                    continue
                segs = segments_of(hist)
                is_last = (pi == len(segs) - 1) and (i == len(segs[-1][1]) - 1)
                real = real_replay(hist) if is_last else None
                note = ''
                if real is not None:
                    st.inc('real_replays')
                    rwhy = cache.judge(decl, real)
                    if not rwhy:
                        st.notes.append('HARNESS: history %s violates in the harness (%s) but not with a real process' % (describe(hist), why))
                        continue
                    note = ' [reproduced with a real interpreter process: %s]' % rwhy
                st.violate(signature(hist, pi, i, decl, why), 'history: %s  => definition #%d of process %d (%s): %s%s' % (describe(hist), i, pi, decl, why, note),
                           {'hist': [list(o) for o in hist]})
            if not bad and idx % 97 == (common.SEED % 97) and replayed < payload['replays']:
                real = real_replay(hist)
                if real is not None:
                    replayed += 1
                    st.inc('real_replays')
                    last = [op for op in hist if op[0] == 'define'][-1]
                    if cache.judge(last[1], real):
                        st.notes.append('HARNESS: history %s passes in the harness but a real process gives %r' % (describe(hist), real))
            if idx % 3001 == common.SEED % 3001:
                st.sample({'history': describe(hist), 'fs_steps': steps})
    return st


def real_histories(tier):
    """sequences of REAL interpreter processes, each making one definition in the same harness second, some of
    them started with -O (their bytecode lives under another name and survives the other's clean-up)"""
    import itertools as it
    procs = [(d, o) for d in ('A', 'A2') for o in (False, True)]
    out = []
    for n in ((2, 3, 4) if tier == 'quick' else (2, 3, 4, 5)):
        for seq in it.product(procs, repeat=n):
            if not any(o for _, o in seq):
                continue            # without -O the virtual-process histories cover it
            if len({d for d, _ in seq}) < 2:
                continue
            out.append(seq)
    return out


def real_shard(shard, nshards, payload):
    st = Stats()
    for i, seq in enumerate(real_histories(payload['tier'])):
        if i % nshards != shard:
            continue
        scratch = common.new_scratch_dir('c15o')
        cache.write_source(scratch)
        try:
            for j, (decl, opt_level) in enumerate(seq):
                out = cache.real_define(scratch, CLOCK0, decl, 'noann', True, optimize=opt_level)
                st.inc('real_definitions')
                why = cache.judge(decl, out)
                if why:
                    hist = ' ; '.join('python%s: define(%s)' % (' -O' if o else '', d) for d, o in seq[:j + 1])
                    st.violate('real processes with mixed optimisation levels: %s' % ('definition fails' if 'failed' in why else 'behaves per another declaration'),
                               'history of real interpreter processes (same second, bytecode on): %s => %s' % (hist, why),
                               {'real': [[d, o] for d, o in seq[:j + 1]]})
                    break
            st.inc('real_histories')
            st.add('states', ('real', cache.snap_key(cache.snapshot_dir(scratch))))
        finally:
            shutil.rmtree(scratch, ignore_errors=True)
    return st


def similar_shard(shard, nshards, payload):
    """the cookie must tell SIMILAR declarations apart: same-named classes whose generated sources differ in a few characters only -
    two one-byte integers named by every pair of three-letter names over {a, b, c} (thorough: {a, b, c, d}) in both orders, one
    definition right after the other in one module (one cache file). A weak checksum (sums, xors, a truncated digest) collides on
    some of them; then the second class runs the first one's code and its two values come out swapped."""
    import itertools as it
    from mc import mk
    st = Stats()
    letters = 'abc' if payload['tier'] == 'quick' else 'abcd'
    names = [''.join(t) for t in it.product(letters, repeat=3)]
    pairs = list(it.combinations(names, 2))
    chunk = [pr for i, pr in enumerate(pairs) if i % nshards == shard]
    if not chunk:
        return st
    with mk.World() as w:
        src = ''
        for i, (x, y) in enumerate(chunk):
            src += mk.class_src('K', ['%s = Int(1)' % x, '%s = Int(1)' % y]) + 'K__%d_0 = K\n' % i
            src += mk.class_src('K', ['%s = Int(1)' % y, '%s = Int(1)' % x]) + 'K__%d_1 = K\n' % i
        m = w.module(src)
        for i, (x, y) in enumerate(chunk):
            for j, first in ((0, x), (1, y)):
                K = getattr(m, 'K__%d_%d' % (i, j))
                st.inc('definitions')
                st.inc('histories')
                try:
                    p = K.unpack(b'\x01\x02')
                    got = (getattr(p, first), K(**{first: 7}).pack())
                except Exception as e:
                    got = repr(e)
                if got != (1, b'\x07\x00'):
                    a, b = (x, y) if j == 0 else (y, x)
                    st.violate('similar declarations: behaves per another declaration',
                               'class K(%s = Int(1); %s = Int(1)) defined right after K(%s = Int(1); %s = Int(1)) in one module: unpack(01 02).%s, K(%s=7).pack() -> %r, expected (1, 07 00)' % (
                                   a, b, b, a, first, first, got), {'similar': [x, y]})
                    return st
        st.add('states', ('similar', len(chunk)))
    return st


def run(tier):
    depth = 3 if tier == 'quick' else 4
    st = common.merge_all(common.run_sharded(_shard, {'tier': tier, 'depth': depth, 'replays': 3 if tier == 'quick' else 12}))
    st.merge(common.merge_all(common.run_sharded(_shard, {'tier': tier, 'depth': depth + 1, 'replays': 2, 'big': True})))
    st.merge(common.merge_all(common.run_sharded(_shard, {'tier': tier, 'depth': depth, 'replays': 2, 'big': 'desc'})))
    st.merge(common.merge_all(common.run_sharded(_shard, {'tier': tier, 'depth': depth, 'replays': 2, 'big': 'names'})))
    st.merge(common.merge_all(common.run_sharded(_shard, {'tier': tier, 'depth': depth, 'replays': 2, 'big': 'factory'})))
    st.merge(common.merge_all(common.run_sharded(_shard, {'tier': tier, 'depth': depth + 2, 'replays': 0, 'big': 'reuse'})))
    st.merge(common.merge_all(common.run_sharded(real_shard, {'tier': tier})))
    st.merge(common.merge_all(common.run_sharded(similar_shard, {'tier': tier})))
    if not st.samples:
        st.sample({'history': describe([('define', 'A', 'def'), ('forget',), ('define', 'A2', 'def')])})
    cov = {
        'states': st.count('states'), 'transitions': st.n.get('transitions', 0),
        'traces_validated_against_impl': st.n.get('histories', 0), 'evaluations': st.n.get('histories', 0),
        'distinct_nontrivial': st.count('states'), 'programs': len(alphabet(tier)) - len(CTRL),
        'real_process_replays': st.n.get('real_replays', 0), 'definitions_checked': st.n.get('definitions', 0),
        'real_process_histories_with_mixed_optimisation_levels': st.n.get('real_histories', 0), 'real_definitions': st.n.get('real_definitions', 0),
        'rule': 'all histories of length <=%d (also started from a cache directory that earlier processes filled for A resp. A2 with bytecode) ending in a definition over %d operations (define x %d declaration/option pairs incl. two declarations whose '
                'generated source has the same length, new process, clock tick, bytecode toggle, forget sources), and all histories one longer over two LONG declarations (41 fields, a cache file of more than 8 KiB) that differ in the byte order of their last field, and all histories over two declarations whose per-field code is identical but whose described field has another descriptor (AutoLength / a user-written one without sync hook), and all histories over two declarations whose field names are not ascii (tama\u00f1o, se\u00f1al), and all histories (also started from a cache an earlier process filled) over two declarations from ONE class statement whose generated code is textually identical (the delimiter lives in the field object), and all sequences of %d definitions of three declarations within ONE process that meets a cache an earlier process filled, on real files with harness time stamps; plus all pairs of declarations that differ only in the ORDER of two three-letter field names over a three-letter alphabet (351 pairs, thorough 2016), defined one right after the other in one module'
                '(everything within one second unless a tick occurs); every definition and every class still alive in the process checked on a battery '
                'against its own declaration; transitions = interposed file-system steps; states = distinct final (directory contents+mtimes, clock)' % (
                    depth, len(alphabet(tier)), len(alphabet(tier)) - len(CTRL), depth + 2),
        'exhaustive': True, 'bounds': {'depth': depth, 'depth_for_the_long_declarations': depth + 1}, 'distinct_outcomes': st.count('outcomes'), 'samples': st.samples,
    }
    errs = [n for n in st.notes if n.startswith('HARNESS')]
    return {'stats': st, 'coverage': cov, 'harness_errors': errs,
            'assumptions': ['process isolation is modelled (private module table, import locks, bytecode flag) and bound to reality by replaying traces with real interpreter processes',
                            'the clock is a harness variable; one second granularity like the bytecode validation']}


def replay(case):
    if 'similar' in case:
        from mc import mk
        x, y = case['similar']
        with mk.World() as w:
            m = w.module(mk.class_src('K', ['%s = Int(1)' % x, '%s = Int(1)' % y]) + 'K0 = K\n' + mk.class_src('K', ['%s = Int(1)' % y, '%s = Int(1)' % x]) + 'K1 = K\n')
            got = (getattr(m.K0.unpack(b'\x01\x02'), x), getattr(m.K1.unpack(b'\x01\x02'), y))
        return [] if got == (1, 1) else [{'sig': 'similar declarations', 'what': repr(got)}]
    if 'real' in case:
        scratch = common.new_scratch_dir('c15o')
        cache.write_source(scratch)
        try:
            for decl, o in case['real']:
                out = cache.real_define(scratch, CLOCK0, decl, 'noann', True, optimize=o)
                why = cache.judge(decl, out)
                if why:
                    return [{'sig': 'real processes with mixed optimisation levels', 'what': why}]
            return []
        finally:
            shutil.rmtree(scratch, ignore_errors=True)
    hist = [tuple(o) for o in case['hist']]
    bad, _, _, _ = run_history(hist)
    return [{'sig': signature(hist, b[0], b[1], b[2], b[4]), 'what': '%s: %s' % (describe(hist), b[4])} for b in bad]
