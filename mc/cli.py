"""./check <Cxx> --tier quick|thorough     run the bounded exhaustive exploration for one property
./check <Cxx> --replay FILE               re-execute one recorded case
./check --selftest                        harness self-tests (reference semantics vs documentation examples)

exit 0: property held on everything explored (KNOWN-FINDING lines possible)
exit 1: VIOLATION property=<id> replay=<path>
exit 2: harness failure (never accompanied by a VIOLATION line)
"""
import argparse
import importlib
import json
import os
import sys
import time
import traceback

from mc import common

KNOWN = os.path.join(common.VERIF, 'known_findings.json')
# VERIF_OUT_DIR redirects evidence and replay files (used when a seeded change is evaluated, so that the
# committed evidence of the unchanged tree is not overwritten)
_OUT = os.environ.get('VERIF_OUT_DIR')
EVID = os.path.join(_OUT, 'evidence') if _OUT else os.path.join(common.VERIF, 'evidence')
REPLAYS = os.path.join(_OUT, 'replays') if _OUT else os.path.join(common.VERIF, 'replays')


def load_known():
    try:
        with open(KNOWN) as f:
            return json.load(f)
    except FileNotFoundError:
        return {'findings': [], 'fixed': []}


def match_known(known, prop, sig):
    for f in known.get('findings', []):
        if f.get('property') == prop and f.get('status', 'open') == 'open':
            sigs = f.get('signatures') or [f.get('signature')]
            if sig in sigs:
                return f
    return None


def write_evidence(prop, tier, res, wall, nviol):
    os.makedirs(EVID, exist_ok=True)
    cov = dict(res['coverage'])
    for k in ('states', 'transitions', 'traces_validated_against_impl', 'evaluations', 'distinct_nontrivial'):
        cov[k] = int(cov.get(k, 0))
    cov.setdefault('samples', [])
    if not cov['samples']:
        cov['samples'] = ['(none recorded)']
    ev = {
        'property_id': prop,
        'tier': tier,
        'seed': common.SEED,
        'level': 'model_checking',
        'coverage': cov,
        'assumptions': res.get('assumptions', []),
        'wall_s': wall,
        'violations': nviol,
    }
    path = os.path.join(EVID, prop + '.json')
    tmp = path + '.tmp%d' % os.getpid()
    with open(tmp, 'w') as f:
        f.write(common.dumps(ev, indent=1))
        f.write('\n')
    os.replace(tmp, path)
    return path


def write_replay(prop, v):
    os.makedirs(REPLAYS, exist_ok=True)
    h = common.digest(v['sig'], common.dumps(v['case'], sort_keys=True)).hex()
    path = os.path.join(REPLAYS, '%s-%s.json' % (prop, h))
    with open(path, 'w') as f:
        f.write(common.dumps({'property': prop, 'sig': v['sig'], 'what': v['what'], 'case': v['case'],
                              'snippet': v.get('snippet')}, indent=1))
        f.write('\n')
    return path


def report(prop, violations):
    """prints KNOWN-FINDING / VIOLATION lines; returns number of unlisted violations"""
    known = load_known()
    bad = 0
    for v in violations:
        k = match_known(known, prop, v['sig'])
        if k is not None:
            print('KNOWN-FINDING: property=%s %s [%s; %d case(s) this run, e.g. %s]' % (
                prop, k.get('what', v['what']), k.get('id', ''), v.get('count', 1), v['what']))
        else:
            path = write_replay(prop, v)
            print('VIOLATION property=%s replay=%s' % (prop, path))
            print('  signature: %s' % v['sig'])
            print('  what: %s  (%d case(s) with this signature)' % (v['what'], v.get('count', 1)))
            bad += 1
    return bad


def main(argv=None):
    ap = argparse.ArgumentParser()
    ap.add_argument('prop', nargs='?')
    ap.add_argument('--tier', default=os.environ.get('VERIF_TIER') or 'quick', choices=['quick', 'thorough'])
    ap.add_argument('--replay')
    ap.add_argument('--selftest', action='store_true')
    a = ap.parse_args(argv)

    if a.selftest:
        from mc import selftest
        return selftest.main()

    prop = a.prop.upper()
    try:
        mod = importlib.import_module('mc.props.' + prop.lower())
    except ImportError:
        traceback.print_exc()
        print('no check for %s' % prop)
        return 2

    if a.replay:
        with open(a.replay) as f:
            rec = common.loads(f.read())
        try:
            vs = mod.replay(rec['case'])
        except Exception:
            traceback.print_exc()
            return 2
        if vs:
            for v in vs:
                print('REPRODUCED property=%s signature=%s\n  %s' % (prop, v['sig'], v['what']))
            print('VIOLATION property=%s replay=%s' % (prop, a.replay))
            return 1
        print('case does not violate %s on this tree' % prop)
        return 0

    t0 = time.time()
    try:
        res = mod.run(a.tier)
    except Exception:
        traceback.print_exc()
        print('HARNESS-FAILURE property=%s' % prop)
        return 2
    wall = round(time.time() - t0, 2)
    st = res['stats']
    if res.get('harness_errors'):
        for e in res['harness_errors']:
            print('HARNESS-FAILURE property=%s %s' % (prop, e))
        return 2
    bad = report(prop, st.violations)
    write_evidence(prop, a.tier, res, wall, len(st.violations))
    cov = res['coverage']
    print('%s %s: states=%s transitions=%s executions=%s programs=%s exhaustive=%s wall=%ss violations=%d (unlisted %d)' % (
        prop, a.tier, cov.get('states'), cov.get('transitions'), cov.get('traces_validated_against_impl'),
        cov.get('programs'), cov.get('exhaustive'), wall, len(st.violations), bad))
    return 1 if bad else 0


if __name__ == '__main__':
    sys.exit(main())
