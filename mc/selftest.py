"""Harness self-test (MANIFEST.setup_cmd): nothing is built, bisturi is imported from /repo as it is."""
import sys


def main():
    from mc import common
    import bisturi
    print('bisturi imported from', bisturi.__file__)
    ok = True
    try:
        from mc import refsem_selftest
        ok = refsem_selftest.run() and ok
    except ImportError:
        pass
    print('selftest', 'ok' if ok else 'FAILED')
    return 0 if ok else 2


if __name__ == '__main__':
    sys.exit(main())
