"""Declaration IR ("programs" of the E-A explorer), rendering to real Python source, and the glue between
real packet objects and plain reference values.

IR nodes are plain JSON-able dicts (bytes allowed, see common.dumps) so that every explored case can be
written to a replay file.

  pkt     {'k':'pkt','name':N,'fields':[[fname,node],...],'opts':{...}}
  int     {'k':'int','n':1,'signed':False,'end':None,'default':None}
  data    {'k':'data','mode':'size','size':E,'sp':'const|field|expr|lambda'}
          {'k':'data','mode':'marker','m':b'..','incl':bool,'consume':bool}
          {'k':'data','mode':'regex','pat':b'..','incl':bool,'consume':bool}
          {'k':'data','mode':'eos'}
  bits    {'k':'bits','w':3}
  ref     {'k':'ref','pkt':PKT,'how':'class|bare|inst','kw':{...}}
  refsel  {'k':'refsel','sel':E,'form':'chooses|lambda','table':[[key,node_or_pkt],...],'default':value}
  seq     {'k':'seq','elem':node,'count':E|None,'csp':sp,'until':U|None,'when':E|None,'wsp':sp,'aligned':int|None,'default':list|None}
  opt     {'k':'opt','elem':node,'when':E,'wsp':sp,'default':value|None}
  em      {'k':'em'}
  any node may carry 'pos': {'m':'at|shift|aligned','arg':E,'sp':'const|field|lambda','ref':None|str}

Expressions E use the tree format of mc/props/c09.py: ['f',name] ['c',v] ['bin',op,l,r] ['un',op,x].
Values: int, bytes, list, None, and PV(name, {field: value}) for nested packets.
"""
import operator

# ---------------------------------------------------------------------------------------------
# constructors
# ---------------------------------------------------------------------------------------------


def PKT(name, fields, **opts):
    return {'k': 'pkt', 'name': name, 'fields': [[n, f] for n, f in fields], 'opts': dict(opts)}


def I(n=1, signed=False, end=None, default=None):
    return {'k': 'int', 'n': n, 'signed': signed, 'end': end, 'default': default}


def U(n=3, default=None):
    """a user-defined field (class Hex of mk.HEADER): n bytes <-> their hexadecimal spelling (a str)"""
    return {'k': 'user', 'n': n, 'default': default}


def D(size, sp=None, default=None):
    if sp is None:
        sp = 'const' if size[0] == 'c' else ('field' if size[0] == 'f' else 'expr')
    return {'k': 'data', 'mode': 'size', 'size': size, 'sp': sp, 'default': default}


def DM(m, incl=False, consume=True, default=None):
    return {'k': 'data', 'mode': 'marker', 'm': m, 'incl': incl, 'consume': consume, 'default': default}


def DR(pat, incl=True, consume=True, default=None, flags=''):
    # flags: letters of re flags the expression is compiled with ('I' ignore case, 'S' dot matches newline, 'M' multiline)
    d = {'k': 'data', 'mode': 'regex', 'pat': pat, 'incl': incl, 'consume': consume, 'default': default}
    if flags:
        d['flags'] = flags
    return d


def re_flags(node):
    import re
    f = 0
    for ch in node.get('flags') or '':
        f |= getattr(re, ch)
    return f


def DEOS(default=None):
    return {'k': 'data', 'mode': 'eos', 'default': default}


def B(w, default=None):
    return {'k': 'bits', 'w': w, 'default': default}


def R(pkt, how='class', kw=None):
    return {'k': 'ref', 'pkt': pkt, 'how': how, 'kw': kw or {}}


def RS(sel, table, default, form='chooses'):
    return {'k': 'refsel', 'sel': sel, 'form': form, 'table': [[k, v] for k, v in table], 'default': default}


def S(elem, count=None, csp=None, until=None, when=None, wsp=None, aligned=None, default=None):
    if count is not None and csp is None:
        csp = 'const' if count[0] == 'c' else ('field' if count[0] == 'f' else 'expr')
    if when is not None and wsp is None:
        wsp = 'field' if when[0] == 'f' else 'expr'
    return {'k': 'seq', 'elem': elem, 'count': count, 'csp': csp, 'until': until, 'when': when, 'wsp': wsp,
            'aligned': aligned, 'default': default}


def O(elem, when, wsp=None, default=None):
    if wsp is None:
        wsp = 'field' if when[0] == 'f' else 'expr'
    return {'k': 'opt', 'elem': elem, 'when': when, 'wsp': wsp, 'default': default}


def EM():
    return {'k': 'em'}


def pos(node, m, arg, sp=None, ref=None):
    node = dict(node)
    if sp is None:
        sp = 'const' if arg[0] == 'c' else ('field' if arg[0] == 'f' else 'lambda')
    node['pos'] = {'m': m, 'arg': arg, 'sp': sp, 'ref': ref}
    return node


def F(name):
    return ['f', name]


def C(v):
    return ['c', v]


def BIN(op, l, r):
    return ['bin', op, l, r]


class PV:
    """value of a nested packet"""
    __slots__ = ('name', 'vals')

    def __init__(self, name, vals):
        self.name = name
        self.vals = vals

    def __eq__(self, other):
        return isinstance(other, PV) and self.name == other.name and self.vals == other.vals

    def __ne__(self, other):
        return not self == other

    def __repr__(self):
        return '%s(%s)' % (self.name, ', '.join('%s=%r' % kv for kv in self.vals.items()))

    def tojson(self):
        return {'__pv__': self.name, 'vals': {k: val_tojson(v) for k, v in self.vals.items()}}


def val_tojson(v):
    if isinstance(v, PV):
        return v.tojson()
    if isinstance(v, list):
        return [val_tojson(x) for x in v]
    return v


def val_fromjson(v):
    if isinstance(v, dict) and '__pv__' in v:
        return PV(v['__pv__'], {k: val_fromjson(x) for k, x in v['vals'].items()})
    if isinstance(v, list):
        return [val_fromjson(x) for x in v]
    return v


# ---------------------------------------------------------------------------------------------
# expressions
# ---------------------------------------------------------------------------------------------
SYM = {'add': '+', 'sub': '-', 'mul': '*', 'truediv': '/', 'floordiv': '//', 'mod': '%', 'pow': '**', 'le': '<=', 'lt': '<',
       'ge': '>=', 'gt': '>', 'eq': '==', 'ne': '!=', 'and_': '&', 'or_': '|', 'xor': '^', 'rshift': '>>', 'lshift': '<<'}


def expr_src(t, prefix=''):
    """python source of expression t; prefix='' gives the deferred spelling (bare field names inside the
    class body), prefix='pkt.' the body of a lambda"""
    k = t[0]
    if k == 'f':
        return prefix + t[1]
    if k == 'c':
        return repr(t[1])
    if k == 'bin':
        if t[1] == 'getitem':
            return '%s[%s]' % (expr_src(t[2], prefix), expr_src(t[3], prefix))
        return '(%s %s %s)' % (expr_src(t[2], prefix), SYM[t[1]], expr_src(t[3], prefix))
    if k == 'un':
        x = expr_src(t[2], prefix)
        if t[1] == 'neg':
            return '(-%s)' % x
        if t[1] == 'inv':
            return '(~%s)' % x
        if t[1] == 'len':
            return ('len(%s)' % x) if prefix else ('%s.__len__()' % x)
        if t[1] == 'truth':
            return ('bool(%s)' % x) if prefix else ('%s.__nonzero__()' % x)
    if k == 'call':
        # a user's helper (defined in the module header) called from a lambda: nonzero(v) raises a BARE ValueError() for 0
        if not prefix:
            raise ValueError('helper calls exist in the lambda spelling only')
        return '%s(%s)' % (t[1], expr_src(t[2], prefix))
    raise ValueError(t)


def expr_eval(t, vals):
    k = t[0]
    if k == 'f':
        return vals[t[1]]
    if k == 'c':
        return t[1]
    if k == 'bin':
        return getattr(operator, t[1])(expr_eval(t[2], vals), expr_eval(t[3], vals))
    if k == 'un':
        x = expr_eval(t[2], vals)
        if t[1] == 'len':
            return len(x)
        return getattr(operator, t[1])(x)
    if k == 'call':
        x = expr_eval(t[2], vals)
        if t[1] == 'nonzero':
            if not x:
                raise ValueError()
            return x
    raise ValueError(t)


def expr_fields(t):
    if t[0] == 'f':
        return {t[1]}
    out = set()
    for x in t[1:]:
        if isinstance(x, list):
            out |= expr_fields(x)
    return out


def spelled(t, sp):
    """source for expression t in spelling sp"""
    if sp == 'const':
        assert t[0] == 'c'
        return repr(t[1])
    if sp == 'field':
        assert t[0] == 'f'
        return t[1]
    if sp == 'expr':
        return expr_src(t)
    if sp == 'lambda':
        return 'lambda pkt, **k: ' + expr_src(t, 'pkt.')
    if sp == 'rem':
        # a callable that inspects the raw buffer: "as many as there are bytes left"
        return 'lambda pkt, raw, offset, **k: len(raw) - offset'
    raise ValueError(sp)


# ---------------------------------------------------------------------------------------------
# rendering
# ---------------------------------------------------------------------------------------------
def embeds(P):
    """embedded packets of P: the IR keeps the borrowed fields INLINE in P['fields'] (that is what embed=True means: they
    are fields of the embedding class); the first of them carries the marker '_embed' = {'name', 'cls', 'n'}. Returns
    [(index of the first borrowed field, marker, packet IR of the embedded class)]"""
    out = []
    for i, (fname, node) in enumerate(P['fields']):
        m = node.get('_embed')
        if m:
            flds = []
            for n2, nd in P['fields'][i:i + m['n']]:
                nd = dict(nd)
                nd.pop('_embed', None)
                flds.append((n2, nd))
            out.append((i, m, PKT(m['cls'], flds)))
    return out


def subpackets(P, acc=None):
    """all packet IRs reachable from P, dependencies first, P last (by name, each once)"""
    if acc is None:
        acc = []

    def visit_node(node):
        k = node['k']
        if k == 'ref':
            visit(node['pkt'])
        elif k == 'refsel':
            for _, tgt in node['table']:
                if tgt['k'] == 'pkt':
                    visit(tgt)
                else:
                    visit_node(tgt)
            d = node.get('default')
        elif k in ('seq', 'opt'):
            visit_node(node['elem'])

    def visit(p):
        if any(q['name'] == p['name'] for q in acc):
            return
        for _, node in p['fields']:
            visit_node(node)
        for _, _, q in embeds(p):
            visit(q)
        acc.append(p)

    visit(P)
    return acc


def value_src(v):
    """source text constructing a value (PV -> constructor call)"""
    if isinstance(v, PV):
        return '%s(%s)' % (v.name, ', '.join('%s=%s' % (k, value_src(x)) for k, x in v.vals.items()))
    if isinstance(v, list):
        return '[%s]' % ', '.join(value_src(x) for x in v)
    return repr(v)


def node_src(node, fresh=False):
    k = node['k']
    if k == 'int':
        args = []
        if node['n'] != 4 or True:
            args.append(str(node['n']))
        if node.get('signed'):
            args.append('signed=True')
        if node.get('end') is not None:
            args.append('endianness=%r' % node['end'])
        if node.get('default') is not None:
            args.append('default=%r' % node['default'])
        s = 'Int(%s)' % ', '.join(args)
    elif k == 'data':
        mode = node['mode']
        if mode == 'size':
            args = [spelled(node['size'], node['sp'])]
        elif mode == 'marker':
            args = ['until_marker=%r' % node['m']]
            if node.get('incl'):
                args.append('include_delimiter=True')
            if not node.get('consume', True):
                args.append('consume_delimiter=False')
        elif mode == 'regex':
            args = ['until_marker=re.compile(%r%s)' % (node['pat'], (', ' + ' | '.join('re.' + ch for ch in node['flags'])) if node.get('flags') else '')]
            if node.get('incl'):
                args.append('include_delimiter=True')
            if not node.get('consume', True):
                args.append('consume_delimiter=False')
        else:
            args = ['until_marker=EOS', 'include_delimiter=True'] if node.get('incl') else ['until_marker=EOS']
        if node.get('default') is not None:
            args.append('default=%r' % node['default'])
        s = 'Data(%s)' % ', '.join(args)
    elif k == 'bits':
        s = 'Bits(%d%s)' % (node['w'], (', default=%r' % node['default']) if node.get('default') is not None else '')
    elif k == 'ref':
        name = node['pkt']['name']
        if node['how'] == 'bare':
            s = name
        elif node['how'] == 'class':
            s = 'Ref(%s)' % name
        elif node['how'] == 'var':
            s = 'Ref(%s)' % node['var']         # a module-level instance, see live_prototypes()
        else:
            s = 'Ref(%s(%s))' % (name, ', '.join('%s=%s' % (a, value_src(b)) for a, b in node['kw'].items()))
    elif k == 'refsel':
        items = []
        for key, tgt in node['table']:
            tsrc = (tgt['name'] + '()') if tgt['k'] == 'pkt' else node_src(tgt)
            items.append('%r: %s' % (key, tsrc))
        table = '{%s}' % ', '.join(items)
        if node.get('shared_table'):
            table = node['shared_table']        # a module-level dict shared by several Ref fields
        if node['form'] == 'chooses':
            sel = node['sel']
            s = 'Ref(%s.chooses(%s), default=%s)' % (expr_src(sel), table, value_src(node['default']))
        else:
            s = 'Ref(lambda pkt, **k: %s[%s], default=%s)' % (table, expr_src(node['sel'], 'pkt.'), value_src(node['default']))
    elif k == 'seq':
        args = []
        if node['count'] is not None:
            args.append('count=' + spelled(node['count'], node['csp']))
        if node['until'] is not None:
            args.append('until=' + until_src(node['until']))
        if node['when'] is not None:
            args.append('when=' + spelled(node['when'], node['wsp']))
        if node.get('aligned') is not None:
            args.append('aligned=%d' % node['aligned'])
        if node.get('default') is not None:
            args.append('default=%s' % value_src(node['default']))
        s = '%s.repeated(%s)' % (node_src(node['elem']), ', '.join(args))
    elif k == 'opt':
        args = [spelled(node['when'], node['wsp'])]
        if node.get('default') is not None:
            args.append('default=%s' % value_src(node['default']))
        s = '%s.when(%s)' % (node_src(node['elem']), ', '.join(args))
    elif k == 'em':
        s = 'Em()'
    elif k == 'user':
        s = 'Hex(%d%s)' % (node['n'], (', default=%r' % node['default']) if node.get('default') is not None else '')
    else:
        raise ValueError(k)
    dsc = node.get('desc')
    if dsc:
        if dsc['k'] == 'autolength':
            s += ".describe(AutoLength(%r))" % dsc['of']
        elif dsc['k'] == 'auto':
            s += ".describe(Auto(lambda pkt: %s))" % expr_src(dsc['expr'], 'pkt.')
        else:
            raise ValueError(dsc)
    p = node.get('pos')
    if p:
        if k == 'ref' and node['how'] == 'bare':
            raise ValueError('a bare packet class cannot be positioned')
        arg = spelled(p['arg'], p['sp'])
        if p['m'] == 'shift':
            s += '.shift(%s)' % arg
        elif p['ref'] is None:
            s += '.%s(%s)' % (p['m'], arg)
        else:
            s += '.%s(%s, %r)' % (p['m'], arg, p['ref'])
    return s


def until_src(u):
    # the condition sees the list built so far through the packet attribute; 'fname' is filled by pkt_src
    if u['u'] == 'last_eq':
        attr = ('.' + u['attr']) if u.get('attr') else ''
        return 'lambda pkt, **k: pkt.%s[-1]%s == %r' % (u['fname'], attr, u['v'])
    if u['u'] == 'len_eq':
        return 'lambda pkt, **k: len(pkt.%s) == %r' % (u['fname'], u['v'])
    if u['u'] == 'last_and':          # a truth VALUE that is not a bool: 0 or the masked bit
        return 'lambda pkt, **k: pkt.%s[-1] & %r' % (u['fname'], u['v'])
    if u['u'] == 'last_val':          # ... the element itself: any non-zero element ends the list
        return 'lambda pkt, **k: pkt.%s[-1]' % (u['fname'],)
    if u['u'] == 'at_end':
        return 'lambda pkt, raw, offset, **k: offset >= len(raw)'
    if u['u'] == 'off_ge':
        return "lambda pkt, offset, **k: offset - k['innermost-pkt-pos'] >= %r" % (u['v'],)
    raise ValueError(u)


def until_eval(u, lst, cur=None, P0=None, rawlen=None):
    """the condition sees the list built so far and the cursor after the latest element"""
    if u['u'] == 'last_eq':
        last = lst[-1]
        if u.get('attr'):
            last = last.vals[u['attr']]
        return last == u['v']
    if u['u'] == 'last_and':
        return bool(lst[-1] & u['v'])
    if u['u'] == 'last_val':
        return bool(lst[-1])
    if u['u'] == 'at_end':
        return cur >= rawlen
    if u['u'] == 'off_ge':
        return cur - P0 >= u['v']
    return len(lst) == u['v']


def pkt_src(P):
    lines = []
    opts = P.get('opts') or {}
    if P.get('shared'):
        lines.append('    __bisturi__ = SHARED')      # one options dict OBJECT shared by every class of the module
    elif opts:
        lines.append('    __bisturi__ = %r' % (dict(opts),))
    emb = {i: m for i, m, _ in embeds(P)}
    skip = 0
    for i, (fname, node) in enumerate(P['fields']):
        if node['k'] == 'seq' and node['until'] is not None:
            node['until']['fname'] = fname
        if skip:
            skip -= 1
            continue
        if i in emb:
            lines.append('    %s = Ref(%s, embed=True)' % (emb[i]['name'], emb[i]['cls']))
            skip = emb[i]['n'] - 1
            continue
        lines.append('    %s = %s' % (fname, node_src(node)))
    if not lines:
        lines.append('    pass')
    return 'class %s(Packet):\n%s\n' % (P['name'], '\n'.join(lines))


def family_src(Ps):
    """one module in which the top-level class of every member of Ps is defined under the SAME name, one
    after the other (each bound to <name>__<i> right after its definition): what a class factory or an
    edited source file does. Shared sub-packet classes are defined once."""
    done, parts = set(), []
    shared = [q for P in Ps for q in subpackets(P)[:-1]]
    tables = {}
    for P in Ps:
        collect_tables(P, tables)
    for q in shared:
        if q['name'] not in done:
            done.add(q['name'])
            parts.append(pkt_src(q))
    for name, src in tables.items():
        at = next((i for i, part in enumerate(parts) if name in part), len(parts))
        parts.insert(at, '%s = %s\n' % (name, src))
    for i, P in enumerate(Ps):
        parts.append(pkt_src(P))
        parts.append('%s__%d = %s\n' % (P['name'], i, P['name']))
    return '\n'.join(parts)


def collect_tables(P, acc):
    """module-level selector tables shared by several Ref fields: name -> source"""
    for q in subpackets(P):
        for _, node in q['fields']:
            for n in (node, node.get('elem') or {}):
                if n.get('k') == 'refsel' and n.get('shared_table'):
                    items = []
                    for key, tgt in n['table']:
                        items.append('%r: %s' % (key, (tgt['name'] + '()') if tgt['k'] == 'pkt' else node_src(tgt)))
                    acc[n['shared_table']] = '{%s}' % ', '.join(items)
    return acc


def live_prototypes(P):
    """(statements before the classes, statements after them) for Ref(<module-level instance>) fields: the instance
    is created before the class that uses it and CHANGED after all classes are declared"""
    pre, post = [], []
    for q in subpackets(P):
        for _, node in q['fields']:
            if node['k'] == 'ref' and node['how'] == 'var':
                sub = node['pkt']
                pre.append((q['name'], '%s = %s(%s)' % (node['var'], sub['name'], ', '.join('%s=%s' % (a, value_src(b)) for a, b in node['kw'].items()))))
                for fname, n2 in sub['fields']:
                    if n2['k'] == 'int':
                        post.append('%s.%s = 99' % (node['var'], fname))
                    elif n2['k'] == 'seq':
                        post.append('%s.%s.append(77)' % (node['var'], fname))
                    elif n2['k'] == 'data':
                        post.append('%s.%s = b"changed"' % (node['var'], fname))
    return pre, post


def module_src(P, local=False):
    """source of a module defining P and everything it references; local=True puts the classes inside a
    function (their prototypes then cannot be pickled and bisturi falls back to deepcopy)"""
    parts = [pkt_src(q) for q in subpackets(P)]
    tables = collect_tables(P, {})
    for n, src in tables.items():
        # a table goes right before the first class that uses it (the classes it instantiates come earlier)
        at = next(i for i, part in enumerate(parts) if n in part)
        parts.insert(at, '%s = %s\n' % (n, src))
    pre, post = live_prototypes(P)
    for user, stmt in pre:
        at = next(i for i, part in enumerate(parts) if part.startswith('class %s(' % user))
        parts.insert(at, stmt + '\n')
    parts.extend(p + '\n' for p in post)
    if P.get('shared'):
        parts.insert(0, 'SHARED = %r\n' % (dict(P.get('opts') or {}),))
    if not local:
        return '\n'.join(parts)
    body = '\n'.join(parts)
    names = [q['name'] for q in subpackets(P)]
    ind = ''.join('    ' + l + '\n' for l in body.splitlines())
    return 'def _make():\n%s    return %s\n%s = _make()\n' % (ind, ', '.join(names) + (',' if len(names) == 1 else ''), ', '.join(names) + (',' if len(names) == 1 else ''))


# ---------------------------------------------------------------------------------------------
# real packet objects <-> plain values
# ---------------------------------------------------------------------------------------------
def value_fields(P):
    """names of the value-bearing fields of P (everything but Em)"""
    return [n for n, node in P['fields'] if node['k'] != 'em']


def extract(obj, P, pkts):
    """plain values of a real packet object, following the IR; pkts: name -> pkt IR"""
    vals = {}
    for fname, node in P['fields']:
        if node['k'] == 'em':
            continue
        try:
            v = getattr(obj, fname)
        except AttributeError:
            v = '<unset>'           # a slot that was never filled is an observation, not a crash of the harness
        vals[fname] = extract_value(v, node, pkts)
    return PV(P['name'], vals)


def extract_value(v, node, pkts):
    from bisturi.packet import Packet
    if isinstance(v, Packet):
        name = type(v).__name__
        if name in pkts:
            return extract(v, pkts[name], pkts)
        return ('<packet %s>' % name)
    if isinstance(v, list):
        en = node['elem'] if node['k'] == 'seq' else node
        return [extract_value(x, en, pkts) for x in v]
    return v


def construct(mod, P, pv, how='kw', reuse=None):
    """a real packet of class P['name'] holding the values pv (a PV); how: 'kw' = constructor keywords,
    'attr' = default construction + attribute assignment"""
    cls = getattr(mod, P['name'])
    pkts = {q['name']: q for q in subpackets(P)}

    def conv(v):
        if isinstance(v, PV):
            return construct(mod, pkts[v.name], v, how) if v.name in pkts else construct(mod, find_pkt(mod_pkts, v.name), v, how)
        if isinstance(v, list):
            return [conv(x) for x in v]
        return v

    mod_pkts = pkts
    if how == 'kw':
        return cls(**{k: conv(v) for k, v in pv.vals.items()})
    obj = cls() if reuse is None else reuse      # reuse: a packet that was already used (packed/parsed) gets new values
    if how == 'inplace':
        # default construction, then the lists the packet was born with are filled IN PLACE
        for k, v in pv.vals.items():
            cur = getattr(obj, k)
            if isinstance(v, list) and isinstance(cur, list):
                del cur[:]
                cur.extend(conv(v))
            else:
                setattr(obj, k, conv(v))
        return obj
    nodes = dict(P['fields'])
    for k, v in pv.vals.items():
        d = nodes.get(k, {}).get('desc') if how == 'auto' else None
        if d and d['k'] == 'autolength' and v == len(pv.vals[d['of']]):
            continue            # 'auto': a described field whose value is what the computation yields is left to the computation
        setattr(obj, k, conv(v))
    return obj


def find_pkt(pkts, name):
    return pkts[name]


def all_pkts(P):
    return {q['name']: q for q in subpackets(P)}
