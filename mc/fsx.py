"""E-C(ii): a controlled environment under the REAL code cache (codegen.generate_code + importlib).

Files are real files in a scratch directory. The harness owns four things only: WHEN each file-system step
happens (every interposed primitive is a scheduling point of a cooperative scheduler), WHAT TIME STAMP it
leaves (harness clock, os.utime after every mutation), WHICH PROCESS it belongs to (a virtual process is a
thread with private sys.modules entries / import locks / dont_write_bytecode) and WHETHER THE PROCESS DIES
there (a BaseException out of the primitive; every later primitive of that process raises it again).

Interposed, process-wide while a Run is active and only for paths under the run's root:
    os.stat/lstat, os.remove/unlink, os.rename/replace, os.mkdir/rmdir, os.listdir/scandir, os.open,
    os.utime, builtins.open/io.open, and importlib's FileLoader.get_data, SourceFileLoader.path_stats,
    SourceFileLoader.set_data.
os.path.exists, os.makedirs, tempfile, shutil sit on top of these and follow automatically.
"""
import builtins
import hashlib
import importlib._bootstrap as _B
import importlib._bootstrap_external as _M
import io
import os
import sys
import threading
import types

DEADMAN = 60.0


class Crash(BaseException):
    """the virtual process was killed"""


_real = {}
_RUN = [None]


def _norm(path):
    if isinstance(path, int):
        return None
    try:
        p = os.fspath(path)
    except TypeError:
        return None
    if isinstance(p, bytes):
        p = os.fsdecode(p)
    return p


class FileProxy:
    """a file opened for writing under the root: every write() reaches the file at once and is a step"""

    def __init__(self, f, run, path):
        self._f = f
        self._run = run
        self._path = path
        self.closed = False

    def write(self, s):
        run = self._run
        if run.bufsize is None:
            self._emit(s)
            return len(s)
        # buffered like a real file object: data reaches the file when the buffer fills up, on flush() and on
        # close() - a rename issued before close() publishes a file that lacks the buffered tail
        self._buf = getattr(self, '_buf', s[:0]) + s
        while len(self._buf) >= run.bufsize:
            chunk, self._buf = self._buf[:run.bufsize], self._buf[run.bufsize:]
            self._emit(chunk)
        return len(s)

    def _emit(self, s):
        run = self._run
        n = len(s)
        cut = run.point('write', self._path, n)
        if cut is not None:
            # killed in the middle of this write: exactly `cut` units reach the file
            self._f.write(s[:cut])
            self._f.flush()
            run.stamp(self._path)
            run.kill_current()
        self._f.write(s)
        self._f.flush()
        run.stamp(self._path)
        run.observe(('write', n))

    def flush(self):
        if self.closed:
            return
        if getattr(self, '_buf', None) and not self._run.dead_current():
            chunk, self._buf = self._buf, self._buf[:0]
            self._emit(chunk)
        self._f.flush()

    def close(self):
        if self.closed:
            return
        try:
            if getattr(self, '_buf', None) and not self._run.dead_current():
                chunk, self._buf = self._buf, self._buf[:0]
                self._emit(chunk)
        finally:
            self.closed = True
            try:
                self._f.close()
            finally:
                if not self._run.dead_current():
                    self._run.stamp(self._path)

    def fileno(self):
        return self._f.fileno()

    def __enter__(self):
        return self

    def __exit__(self, *a):
        self.close()
        return False

    def __getattr__(self, name):
        return getattr(self._f, name)


def _install():
    if _real:
        return
    _real.update(stat=os.stat, lstat=os.lstat, remove=os.remove, unlink=os.unlink, rename=os.rename, replace=os.replace,
                 mkdir=os.mkdir, rmdir=os.rmdir, listdir=os.listdir, scandir=os.scandir, os_open=os.open, utime=os.utime,
                 open=builtins.open, io_open=io.open,
                 get_data=_M.FileLoader.get_data, path_stats=_M.SourceFileLoader.path_stats, set_data=_M.SourceFileLoader.set_data)

    def active(path):
        run = _RUN[0]
        if run is None:
            return None
        p = _norm(path)
        if p is None or not run.mine(p):
            return None
        return run

    def simple(name, opname, mutates=False, second=False):
        real = _real[name]

        def w(path, *a, **k):
            run = active(path) or (second and a and active(a[0])) or None
            if run is None:
                return real(path, *a, **k)
            # a rename is a step on its DESTINATION (the source usually is a private temporary file)
            run.point(opname, _norm(a[0]) if (second and a) else _norm(path))
            try:
                res = real(path, *a, **k)
            except OSError as e:
                run.observe((opname, 'err', type(e).__name__))
                raise
            if opname in ('stat',):
                isdir = (res.st_mode & 0o170000) == 0o040000
                # a directory's size/mtime are real-time artefacts nobody in the protocol looks at
                run.observe((opname, 'dir') if isdir else (opname, res.st_size, int(res.st_mtime)))
            elif opname == 'listdir':
                run.observe((opname, tuple(sorted(res))))
            else:
                run.observe((opname, 'ok'))
            return res
        return w

    os.stat = simple('stat', 'stat')
    os.lstat = simple('lstat', 'stat')
    os.remove = simple('remove', 'remove', True)
    os.unlink = simple('unlink', 'remove', True)
    os.rename = simple('rename', 'rename', True, second=True)
    os.replace = simple('replace', 'rename', True, second=True)
    os.mkdir = simple('mkdir', 'mkdir', True)
    os.rmdir = simple('rmdir', 'rmdir', True)
    os.listdir = simple('listdir', 'listdir')
    os.utime = simple('utime', 'utime', True)

    def w_scandir(path='.'):
        run = active(path)
        if run is None:
            return _real['scandir'](path)
        run.point('listdir', _norm(path))
        res = _real['scandir'](path)
        run.observe(('listdir', 'ok'))
        return res
    os.scandir = w_scandir

    def w_os_open(path, flags, mode=0o777, *a, **k):
        run = active(path)
        if run is None:
            return _real['os_open'](path, flags, mode, *a, **k)
        writing = flags & (os.O_WRONLY | os.O_RDWR | os.O_CREAT | os.O_TRUNC)
        run.point('creat' if writing else 'open-r', _norm(path))
        try:
            fd = _real['os_open'](path, flags, mode, *a, **k)
        except OSError as e:
            run.observe(('open', 'err', type(e).__name__))
            raise
        if writing:
            run.stamp(_norm(path))
            run.fds[fd] = _norm(path)
        run.observe(('open', 'ok'))
        return fd
    os.open = w_os_open

    def w_open(file, mode='r', *a, **k):
        run = _RUN[0]
        if run is not None and isinstance(file, int) and file in run.fds and run.is_proc_thread():
            path = run.fds.pop(file)
            f = _real['open'](file, mode, *a, **k)
            return FileProxy(f, run, path)
        run = active(file)
        if run is None:
            return _real['open'](file, mode, *a, **k)
        path = _norm(file)
        writing = any(c in mode for c in 'wax+')
        run.point('creat' if writing else 'open-r', path)
        try:
            f = _real['open'](file, mode, *a, **k)
        except OSError as e:
            run.observe(('open', 'err', type(e).__name__))
            raise
        run.observe(('open', 'ok'))
        if writing:
            run.stamp(path)
            return FileProxy(f, run, path)
        return f
    builtins.open = w_open
    io.open = w_open

    def w_get_data(self, path):
        run = active(path)
        if run is None:
            return _real['get_data'](self, path)
        run.point('read', _norm(path))
        try:
            data = _real['get_data'](self, path)
        except OSError as e:
            run.observe(('read', 'err', type(e).__name__))
            raise
        run.observe(('read', hashlib.blake2b(data, digest_size=8).hexdigest()))
        return data
    _M.FileLoader.get_data = w_get_data

    def w_path_stats(self, path):
        run = active(path)
        if run is None:
            return _real['path_stats'](self, path)
        run.point('stat', _norm(path))
        try:
            res = _real['path_stats'](self, path)
        except OSError as e:
            run.observe(('stat', 'err', type(e).__name__))
            raise
        run.observe(('stat', res.get('size'), int(res.get('mtime', 0))))
        return res
    _M.SourceFileLoader.path_stats = w_path_stats

    def w_set_data(self, path, data, **k):
        run = active(path)
        if run is None:
            return _real['set_data'](self, path, data, **k)
        run.point('write-pyc', _norm(path))
        res = _real['set_data'](self, path, data, **k)
        run.stamp(_norm(path))
        run.observe(('write-pyc', 'ok'))
        return res
    _M.SourceFileLoader.set_data = w_set_data


def _uninstall():
    if not _real:
        return
    os.stat, os.lstat, os.remove, os.unlink = _real['stat'], _real['lstat'], _real['remove'], _real['unlink']
    os.rename, os.replace, os.mkdir, os.rmdir = _real['rename'], _real['replace'], _real['mkdir'], _real['rmdir']
    os.listdir, os.scandir, os.open, os.utime = _real['listdir'], _real['scandir'], _real['os_open'], _real['utime']
    builtins.open, io.open = _real['open'], _real['io_open']
    _M.FileLoader.get_data, _M.SourceFileLoader.path_stats, _M.SourceFileLoader.set_data = _real['get_data'], _real['path_stats'], _real['set_data']
    _real.clear()


# ---------------------------------------------------------------------------------------------
# process-wide state of the library: a real process starts with freshly imported bisturi modules, a virtual one shares
# them with the other virtual processes of the worker. What a fresh import would reset - the module-level bindings and
# the class attributes of the library that hold plain data (numbers, strings, None, tuples, dict / list / set) - is
# therefore saved and restored with the process, like its module table.
# ---------------------------------------------------------------------------------------------
import collections as _collections
import copy as _copy

_PLAIN = (int, float, str, bytes, bool, type(None), tuple, frozenset)
_BOXES = (dict, list, set, _collections.deque)          # and their subclasses (OrderedDict, defaultdict, ...)
_OWNERS = [None]


def _lib_owners():
    n = sum(1 for name in sys.modules if name == 'bisturi' or name.startswith('bisturi.'))
    if _OWNERS[0] is None or _OWNERS[0][0] != n:
        owners = [n]
        for name, mod in list(sys.modules.items()):
            if mod is not None and (name == 'bisturi' or name.startswith('bisturi.')):
                owners.append(mod)
                for v in list(vars(mod).values()):
                    if isinstance(v, type) and getattr(v, '__module__', None) == name:
                        owners.append(v)
                    elif (not isinstance(v, (type, types.ModuleType, types.FunctionType)) and str(getattr(type(v), '__module__', '')).startswith('bisturi')
                          and hasattr(v, '__dict__')):
                        owners.append(v)        # a module-level instance of a library class (a registry, a memo): its attributes too
        _OWNERS[0] = owners
    return _OWNERS[0][1:]


def lib_snapshot():
    snap = {}
    for o in _lib_owners():
        for k, v in list(vars(o).items()):
            if k.startswith('__') and k.endswith('__'):
                continue
            if isinstance(v, _BOXES):
                snap[(id(o), k)] = (o, k, v, _copy.copy(v))
            elif type(v) in _PLAIN:
                snap[(id(o), k)] = (o, k, v, None)
    return snap


def lib_restore(snap):
    for o in _lib_owners():
        for k, v in list(vars(o).items()):
            if k.startswith('__') and k.endswith('__'):
                continue
            if not isinstance(v, _BOXES) and type(v) not in _PLAIN:
                continue
            if (id(o), k) not in snap:
                try:
                    delattr(o, k)           # appeared in another process
                except (AttributeError, TypeError):
                    pass
    for (_, k), (o, k2, v, content) in snap.items():
        if content is not None:
            if isinstance(v, list):
                v[:] = content
            elif isinstance(v, _collections.deque):
                v.clear()
                v.extend(content)
            else:
                v.clear()
                v.update(content)
        try:
            if vars(o).get(k2, _OWNERS) is not v:
                setattr(o, k2, v)
        except (AttributeError, TypeError):
            pass


class Proc:
    def __init__(self, pid, body, write_bytecode):
        self.pid = pid
        self.body = body
        self.write_bytecode = write_bytecode
        self.modules = {}
        self.locks = {}
        self.lib = None
        self.sem = threading.Semaphore(0)
        self.finished = False
        self.dead = False
        self.started = False
        self.result = None
        self.obs = hashlib.blake2b(digest_size=8)
        self.pc = 0
        self.thread = None
        self.quiet = False     # True while the harness observes (battery): file accesses are not steps


class Run:
    """One execution: virtual processes over one root directory under a choice prefix.

    choices: at every scheduling point with more than one enabled event the next index of `prefix` picks
    the event (canonical order: the running process first, then the other processes by pid, then 'tick'
    if ticks remain); beyond the prefix choice 0 is taken. crash=(pid, step_index, cut): the process dies
    just BEFORE its step number step_index (cut None) or inside that write after `cut` units (cut int)."""

    def __init__(self, root, clock, private_names, prefix=(), crash=None, ticks=0, sequential=False, record_keys=False, bufsize=None, fault=None):
        self.root = os.path.realpath(root) + os.sep
        self.record_keys = record_keys
        self.keys = []
        self.bufsize = bufsize      # None: every write() reaches the file at once; N: buffered, see FileProxy
        self.clock = clock
        self.private = tuple(private_names)
        self.prefix = list(prefix)
        self.crash = crash
        self.fault = fault          # (pid, step index, errno): that file-system step FAILS with OSError instead of being carried out
        self.ticks_left = ticks
        self.procs = []
        self.by_thread = {}
        self.points = []
        self.choices = []
        self.log = []           # (pid, op, relpath, detail)
        self.fds = {}
        self.running = None
        self.error = None
        self.done = threading.Semaphore(0)
        self.sequential = sequential
        self.uninterposed = []
        self.listed = False

    # ---------------------------------------------------------------- helpers used by the wrappers
    def is_proc_thread(self):
        return threading.get_ident() in self.by_thread

    def mine(self, p):
        proc = self.by_thread.get(threading.get_ident())
        if proc is None or proc.quiet:
            return False
        if not os.path.isabs(p):
            p = os.path.join(os.getcwd(), p)
        return p.startswith(self.root) or p + os.sep == self.root

    def cur(self):
        return self.by_thread[threading.get_ident()]

    def set_quiet(self, flag):
        proc = self.by_thread.get(threading.get_ident())
        if proc is not None:
            proc.quiet = flag

    def dead_current(self):
        t = threading.get_ident()
        return t in self.by_thread and self.by_thread[t].dead

    def kill_current(self):
        p = self.cur()
        p.dead = True
        raise Crash()

    def stamp(self, path):
        try:
            _real['utime'](path, (self.clock, self.clock))
        except OSError:
            pass

    def observe(self, what):
        p = self.cur()
        p.obs.update(repr(what).encode())

    def rel(self, path):
        return path[len(self.root):] if path and path.startswith(self.root) else path

    # ---------------------------------------------------------------- scheduling
    def point(self, op, path, detail=None):
        """called by a wrapper BEFORE the primitive. Returns None, or (for writes) the number of units that
        reach the file before the process is killed."""
        p = self.cur()
        if p.dead:
            raise Crash()
        step = p.pc
        p.pc += 1
        if self.crash is not None and self.crash[0] == p.pid and self.crash[1] == step:
            self.log.append((p.pid, op, self.rel(path), detail))
            if self.crash[2] is None or op != 'write':
                p.dead = True
                raise Crash()
            return min(self.crash[2], detail or 0)
        if self.fault is not None and self.fault[0] == p.pid and self.fault[1] == step:
            self.log.append((p.pid, op + '!', self.rel(path), detail))
            raise OSError(self.fault[2], os.strerror(self.fault[2]), path)
        if op == 'listdir':
            self.listed = True
        if not self.sequential:
            # a file whose NAME carries this very thread's id cannot be named by any other process unless
            # somebody lists the directory: steps on it commute with everything and are not choice points
            # (they still are steps for the log and for crash injection)
            private = (not self.listed) and path is not None and (str(threading.get_ident()) in os.path.basename(path))
            if not private:
                self._schedule(p)
        if p.dead:
            raise Crash()
        # the log is in EFFECT order: a step is recorded when the process is allowed to perform it
        self.log.append((p.pid, op, self.rel(path), detail))
        return None

    def _enabled(self, running):
        en = []
        if running is not None and not running.finished:
            en.append(running.pid)
        for q in self.procs:
            if not q.finished and (running is None or q.pid != running.pid):
                en.append(q.pid)
        if self.ticks_left > 0 and en:
            en.append('tick')
        return en

    def _choose(self, running):
        en = self._enabled(running)
        if len(en) <= 1:
            return en[0] if en else None
        i = len(self.points)
        self.points.append((running.pid if running else None, tuple(en)))
        if self.record_keys:
            # the states along the replayed prefix were recorded by the run that first took it
            self.keys.append(self.key() if i >= len(self.prefix) else None)
        c = self.prefix[i] if i < len(self.prefix) else 0
        if c >= len(en):
            self.error = 'choice %d out of range at point %d (enabled %r): replay diverged' % (c, i, en)
            c = 0
        self.choices.append(c)
        return en[c]

    def _schedule(self, p):
        while True:
            nxt = self._choose(p)
            if nxt == 'tick':
                self.ticks_left -= 1
                self.clock += 1
                self.log.append((None, 'tick', None, None))
                continue
            break
        if nxt is not None and nxt != p.pid:
            self._switch(p, self.procs[nxt])
            if not p.sem.acquire(timeout=DEADMAN):
                self.error = 'dead-man timer: process %d never got the baton back' % p.pid
                p.dead = True

    def _switch(self, frm, to):
        # private module table, import locks and bytecode switch travel with the process
        if frm is not None:
            for name in [n for n in sys.modules if n.startswith(self.private)]:
                frm.modules[name] = sys.modules.pop(name)
            frm.locks = dict(_B._module_locks)
            _B._module_locks.clear()
            frm.lib = lib_snapshot()
        lib_restore(to.lib if to.lib is not None else self.lib0)
        sys.modules.update(to.modules)
        to.modules = {}
        _B._module_locks.update(to.locks)
        to.locks = {}
        sys.dont_write_bytecode = not to.write_bytecode
        self.running = to
        to.sem.release()

    def _thread(self, p):
        p.sem.acquire()
        self.by_thread[threading.get_ident()] = p
        p.started = True
        try:
            p.result = ('ok', p.body())
        except Crash:
            p.result = ('crashed',)
        except BaseException as e:
            p.result = ('exc', type(e).__name__, str(e)[:300])
        finally:
            p.finished = True
            for fd in [fd for fd, _ in list(self.fds.items())]:
                pass
            nxt = None
            if not self.sequential:
                while True:
                    nxt = self._choose(None)
                    if nxt == 'tick':
                        self.ticks_left -= 1
                        self.clock += 1
                        self.log.append((None, 'tick', None, None))
                        continue
                    break
            # stash this process' modules
            for name in [n for n in sys.modules if n.startswith(self.private)]:
                p.modules[name] = sys.modules.pop(name)
            p.locks = dict(_B._module_locks)
            _B._module_locks.clear()
            p.lib = lib_snapshot()
            if nxt is not None:
                self._switch(None, self.procs[nxt])
            self.done.release()

    def add(self, body, write_bytecode=False):
        p = Proc(len(self.procs), body, write_bytecode)
        self.procs.append(p)
        return p

    def go(self):
        """runs all processes to completion (sequential=True: one after the other, no choices)"""
        saved_dwb = sys.dont_write_bytecode
        saved_locks = dict(_B._module_locks)
        saved_mods = {n: sys.modules.pop(n) for n in [n for n in sys.modules if n.startswith(self.private)]}
        for sub in ('packet', 'field', 'codegen', 'structural_fields', 'deferred', 'fragments', 'descriptor', 'pattern_matching', 'packet_builder', 'util'):
            try:
                __import__('bisturi.' + sub)      # the baseline is the state right after importing the whole library
            except ImportError:
                pass
        self.lib0 = lib_snapshot()
        _install()
        _RUN[0] = self
        try:
            for p in self.procs:
                p.thread = threading.Thread(target=self._thread, args=(p,), daemon=True)
                p.thread.start()
            if self.sequential:
                for p in self.procs:
                    _B._module_locks.clear()
                    self._switch(None, p)
                    if not self.done.acquire(timeout=DEADMAN):
                        self.error = 'dead-man timer'
                        break
            else:
                _B._module_locks.clear()
                first = self._choose(None)
                while first == 'tick':
                    self.ticks_left -= 1
                    self.clock += 1
                    first = self._choose(None)
                if first is not None:
                    self._switch(None, self.procs[first])
                for _ in self.procs:
                    if not self.done.acquire(timeout=DEADMAN):
                        self.error = self.error or 'dead-man timer: a process did not finish'
                        break
            for p in self.procs:
                p.thread.join(timeout=1.0)
        finally:
            _RUN[0] = None
            _uninstall()
            lib_restore(self.lib0)
            for n in [n for n in sys.modules if n.startswith(self.private)]:
                sys.modules.pop(n, None)
            sys.modules.update(saved_mods)
            _B._module_locks.clear()
            _B._module_locks.update(saved_locks)
            sys.dont_write_bytecode = saved_dwb
        return self

    # ---------------------------------------------------------------- state
    def dir_state(self):
        return dir_state(self.root)

    def key(self):
        return (self.dir_state(), self.clock, self.ticks_left, tuple((p.pc, p.finished, p.obs.hexdigest()) for p in self.procs))


def canon_name(name):
    """temporary files carry the writer's pid / thread id / a counter / random characters in their name: not
    part of the state. Whatever precedes the first ".py" (the module the temporary file is for) is kept."""
    d, sep, b = name.rpartition('/')
    if b.endswith('.tmp') or b.startswith('tmp') or '.tmp.' in b:
        i = b.find('.py')
        base = b[:i + 3] if i >= 0 else ''
        return d + sep + base + '.<tmp>'
    return name


def dir_state(root):
    """(relpath, content hash, size, mtime) of every file below root - with the REAL primitives"""
    listdir = _real.get('listdir') or os.listdir
    stat = _real.get('stat') or os.stat
    ropen = _real.get('open') or builtins.open
    out = []
    root = root.rstrip(os.sep)

    def walk(d, rel):
        try:
            names = sorted(listdir(d))
        except OSError:
            return
        for f in names:
            p = d + os.sep + f
            try:
                st = stat(p)
            except OSError:
                continue
            if st.st_mode & 0o170000 == 0o040000:
                walk(p, rel + f + '/')
            else:
                with ropen(p, 'rb') as fh:
                    h = hashlib.blake2b(fh.read(), digest_size=8).hexdigest()
                out.append((canon_name(rel + f), h, st.st_size, int(st.st_mtime)))
    walk(root, '')
    return tuple(sorted(out))


class RemoteRun(Run):
    """The same interposition inside a REAL interpreter process: every file-system step announces itself on
    `fout` and waits on `fin` for the parent's go (which also carries the harness clock). Used to replay a
    recorded schedule of the virtual processes with real operating-system processes."""

    def __init__(self, root, clock, pid, fin, fout, write_bytecode, bufsize=None):
        Run.__init__(self, root, clock, (), sequential=True, bufsize=bufsize)
        self.fin, self.fout, self.mypid = fin, fout, pid
        p = Proc(pid, None, write_bytecode)
        self.procs = [p]
        self.by_thread[threading.get_ident()] = p

    def point(self, op, path, detail=None):
        p = self.cur()
        p.pc += 1
        self.fout.write('STEP %d %s %s\n' % (self.mypid, op, canon_name(self.rel(path) or '-')))
        self.fout.flush()
        line = self.fin.readline().split()
        if not line or line[0] != 'go':
            raise SystemExit(3)
        self.clock = int(line[1])
        return None

    def attach(self):
        _install()
        _RUN[0] = self
