"""E-C(i): a cooperative scheduler for real threads + preemption-bounded exhaustive exploration.

Scheduling points are the 'line' trace events of frames whose code lives in the directories given
(bisturi's package and the generated __pkts__ modules). A semaphore baton makes exactly one thread
runnable; an execution is a function of its choice sequence and is replayed from it. Exploration is
iterative context bounding (Musuvathi & Qadeer): all schedules with at most `bound` preemptions.
"""
import sys
import threading

DEADMAN = 120.0


class Divergence(Exception):
    pass


def describe_exception(e):
    """an exception as an observation: no memory addresses, no scratch paths, no traceback text"""
    import re
    if hasattr(e, 'fields_stack'):
        msg = getattr(e, 'original_error_message', '')
        return ('exc', type(e).__name__, tuple(tuple(x) for x in e.fields_stack), re.sub(r'0x[0-9a-fA-F]+', '0x', str(msg))[:160])
    return ('exc', type(e).__name__, re.sub(r'0x[0-9a-fA-F]+|/[^ \'"]*', '', str(e))[:160])


class Execution:
    """one run of the thread bodies under a choice prefix (then choice 0 = keep running / lowest id)"""

    def __init__(self, bodies, prefix, trace_dirs, field_base=None):
        self.bodies = bodies
        self.prefix = list(prefix)
        self.trace_dirs = tuple(trace_dirs)
        self.n = len(bodies)
        self.sems = [threading.Semaphore(0) for _ in bodies]
        self.done_sem = threading.Semaphore(0)
        self.finished = [False] * self.n
        self.results = [None] * self.n
        self.points = []          # (running tid or None, enabled tuple in canonical order, running_enabled)
        self.choices = []         # index into enabled, one per point
        self.running = None
        self.error = None
        self.field_base = field_base
        self.paused_fields = [frozenset()] * self.n
        self.overlap = False
        self.file_ok = {}

    # ------------------------------------------------------------------ tracing
    def _want(self, filename):
        ok = self.file_ok.get(filename)
        if ok is None:
            ok = filename.startswith(self.trace_dirs)
            self.file_ok[filename] = ok
        return ok

    def _make_tracer(self, tid):
        ex = self

        def local(frame, event, arg):
            if event == 'line':
                if ex.field_base is not None and not ex.overlap:
                    code = frame.f_code
                    if code.co_argcount and code.co_varnames[0] == 'self':
                        s = frame.f_locals.get('self')
                        if s is not None:
                            sid = id(s)
                            for other in range(ex.n):
                                if other != tid and sid in ex.paused_fields[other]:
                                    ex.overlap = True
                ex._point(tid, frame)
            return local

        def glob(frame, event, arg):
            if event == 'call' and ex._want(frame.f_code.co_filename):
                return local
            return None
        return glob

    def _fields_on_stack(self, frame):
        out = set()
        base = self.field_base
        while frame is not None:
            code = frame.f_code
            if code.co_argcount and code.co_varnames[0] == 'self':
                s = frame.f_locals.get('self')
                if isinstance(s, base):
                    out.add(id(s))
            frame = frame.f_back
        return frozenset(out)

    # ------------------------------------------------------------------ scheduling
    def _enabled(self, running):
        en = [t for t in range(self.n) if not self.finished[t]]
        if running is not None and running in en:
            en.remove(running)
            en.insert(0, running)
        return tuple(en)

    def _choose(self, running):
        en = self._enabled(running)
        i = len(self.points)
        self.points.append((running, en, running is not None and running in en))
        if i < len(self.prefix):
            c = self.prefix[i]
            if c >= len(en):
                raise Divergence('choice %d out of range at point %d (enabled %r)' % (c, i, en))
        else:
            c = 0
        self.choices.append(c)
        return en[c] if en else None

    def _point(self, tid, frame):
        if self.error is not None:
            return
        if len(en := self._enabled(tid)) == 1:
            # nothing else can run: not a choice point (keeps schedules short and canonical)
            return
        try:
            nxt = self._choose(tid)
        except Divergence as e:
            self.error = e
            return
        if nxt != tid:
            if self.field_base is not None:
                self.paused_fields[tid] = self._fields_on_stack(frame)
            self.running = nxt
            self.sems[nxt].release()
            if not self.sems[tid].acquire(timeout=DEADMAN):
                self.error = Divergence('dead-man timer: thread %d never got the baton back' % tid)
            self.paused_fields[tid] = frozenset()

    def _thread(self, tid):
        self.sems[tid].acquire()
        sys.settrace(self._make_tracer(tid))
        try:
            try:
                self.results[tid] = ('ok', self.bodies[tid]())
            except BaseException as e:      # the body's own failures are observations
                self.results[tid] = describe_exception(e)
        finally:
            sys.settrace(None)
            self.finished[tid] = True
            nxt = None
            if self.error is None:
                try:
                    nxt = self._choose(None) if any(not f for f in self.finished) else None
                except Divergence as e:
                    self.error = e
            if self.error is not None:
                # let everybody run to completion without scheduling
                for t in range(self.n):
                    if not self.finished[t]:
                        self.sems[t].release()
            if nxt is not None:
                self.running = nxt
                self.sems[nxt].release()
            self.done_sem.release()

    def run(self):
        ths = [threading.Thread(target=self._thread, args=(t,), daemon=True) for t in range(self.n)]
        for t in ths:
            t.start()
        try:
            first = self._choose(None)
        except Divergence as e:
            self.error = e
            first = 0
        self.running = first
        self.sems[first].release()
        for _ in range(self.n):
            if not self.done_sem.acquire(timeout=DEADMAN):
                self.error = self.error or Divergence('dead-man timer: a thread did not finish')
                break
        for t in ths:
            t.join(timeout=1.0)
        return self

    def preemptions_before(self, i):
        """number of preemptive switches among choices[0:i]"""
        n = 0
        for (running, en, renabled), c in zip(self.points[:i], self.choices[:i]):
            if renabled and c != 0:
                n += 1
        return n


def explore(make_bodies, trace_dirs, bound, check, field_base=None, shard=0, nshards=1, max_schedules=None):
    """All schedules with at most `bound` preemptions (depth-first, prefixes replayed on fresh threads).
    make_bodies() -> list of callables on FRESH state; check(execution) is called for every schedule.
    Work is split between shards by the index of the first deviation point.
    Returns dict(schedules, points, capped, errors)."""
    stats = {'schedules': 0, 'points': 0, 'capped': False, 'errors': [], 'overlaps': 0, 'maxpoints': 0}

    def run(prefix):
        made = make_bodies()
        if trace_dirs is None:
            bodies, dirs = made             # make_bodies() builds a fresh world and says where its code lives
        else:
            bodies, dirs = made, trace_dirs
        ex = Execution(bodies, prefix, dirs, field_base).run()
        if ex.error is not None:
            stats['errors'].append('prefix %r: %s' % (prefix, ex.error))
        return ex

    counter = [0]

    def rec(prefix, spread):
        # spread=True: this node is run by every shard (only shard 0 counts it) and its children are
        # dealt out round-robin; the big cost-free subtrees (which thread starts, which continues after
        # a thread ends) stay in spread mode so that their children are dealt out too
        if max_schedules is not None and stats['schedules'] >= max_schedules:
            stats['capped'] = True
            return
        x = run(prefix)
        if x.error is not None:
            return
        if (not spread) or shard == 0:
            stats['schedules'] += 1
            stats['points'] += len(x.points)
            stats['maxpoints'] = max(stats['maxpoints'], len(x.points))
            if x.overlap:
                stats['overlaps'] += 1
            check(x)
        for i in range(len(prefix), len(x.points)):
            running, en, renabled = x.points[i]
            cost = x.preemptions_before(i)
            for alt in range(1, len(en)):
                c = cost + (1 if renabled else 0)
                if c > bound:
                    continue
                child_spread = spread and c == 0
                if spread and not child_spread:
                    counter[0] += 1
                    if counter[0] % nshards != shard:
                        continue
                rec(x.choices[:i] + [alt], child_spread)

    rec([], True)
    return stats
