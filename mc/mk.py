"""Helpers to define real Packet classes from source text."""
from mc import common

HEADER = '''import re
from bisturi.packet import Packet
from bisturi.field import Int, Data, Bits, Ref, Em, EOS
from bisturi.descriptor import Auto, AutoLength
'''


def opts_src(opts):
    if not opts:
        return ''
    return '    __bisturi__ = %r\n' % (dict(opts),)


GEN_ALL_OFF = {'generate_for_pack': False, 'generate_for_unpack': False}


def class_src(name, field_lines, opts=None, indent=''):
    body = opts_src(opts) + ''.join('    %s\n' % l for l in field_lines)
    if not body:
        body = '    pass\n'
    src = 'class %s(Packet):\n%s' % (name, body)
    if indent:
        src = ''.join(indent + l + '\n' for l in src.splitlines())
    return src


class World:
    """A scratch directory plus the modules defined in it; dispose() forgets everything."""

    def __init__(self):
        self.scratch = common.Scratch()

    def module(self, body, header=HEADER):
        return self.scratch.define(header + '\n' + body)

    def dispose(self):
        self.scratch.dispose()

    def __enter__(self):
        return self

    def __exit__(self, *a):
        self.dispose()
