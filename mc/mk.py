"""Helpers to define real Packet classes from source text."""
from mc import common

HEADER = '''import re
from bisturi.packet import Packet
from bisturi.field import Int, Data, Bits, Ref, Em, EOS
from bisturi.descriptor import Auto, AutoLength
from bisturi.field import Field


def nonzero(v):
    # a user's helper for callbacks: it fails with an exception that carries NO message
    if not v:
        raise ValueError()
    return v


class Hex(Field):
    # a user-defined field as the documentation describes them: n bytes <-> their hexadecimal spelling
    def __init__(self, n=3, default=None):
        Field.__init__(self)
        self.n = n
        self.default = default if default is not None else '00' * n

    def init(self, packet, defaults):
        setattr(packet, self.field_name, defaults.get(self.field_name, self.default))

    def pack(self, pkt, fragments, **k):
        chunk = bytes.fromhex(getattr(pkt, self.field_name))
        if len(chunk) != self.n:
            raise ValueError('%d bytes expected' % self.n)
        fragments.append(chunk)
        return fragments

    def unpack(self, pkt, raw, offset=0, **k):
        chunk = raw[offset:offset + self.n]
        if len(chunk) != self.n:
            raise ValueError('%d bytes expected, %d left' % (self.n, len(chunk)))
        setattr(pkt, self.field_name, chunk.hex())
        return offset + self.n
'''


def opts_src(opts):
    if not opts:
        return ''
    return '    __bisturi__ = %r\n' % (dict(opts),)


GEN_ALL_OFF = {'generate_for_pack': False, 'generate_for_unpack': False}


def class_src(name, field_lines, opts=None, indent=''):
    body = opts_src(opts) + ''.join('    %s\n' % l for l in field_lines)
    if not body:
        body = '    pass\n'
    src = 'class %s(Packet):\n%s' % (name, body)
    if indent:
        src = ''.join(indent + l + '\n' for l in src.splitlines())
    return src


AMBIENT = """
class AmbientLittle(Packet):
    __bisturi__ = {'endianness': 'little'}
    ua = Int(1)
    ub = Int(2)
    uc = Int(4)
    ud = Int(8)
    a = Int(1, signed=True)
    b = Int(2, signed=True)
    c = Int(4, signed=True)
    d = Int(8, signed=True)
    e = Int(3, signed=True)
    f = Data(2)
    g = Bits(4)
    h = Bits(12)


class AmbientBig(Packet):
    a = Int(1)
    b = Int(2)
    c = Int(4)
    d = Int(8)
    n = Int(1)
    l = Int(2, endianness='little').repeated(n)
    o = Int(2, signed=True, endianness='little').when(n)
    m = Data(until_marker=b'\\x00')
"""
_ambient = [None]


def ambient():
    """A real program holds many packet classes: a worker first defines (and uses once) two classes that cover
    every primitive width in little-endian signed and big-endian unsigned form, so that process-wide state a
    field kind may keep (caches keyed too coarsely, first-one-wins tables) is already populated - with the
    OTHER byte order / signedness than most classes under test use."""
    if _ambient[0] is None:
        _ambient[0] = common.Scratch()
        m = _ambient[0].define(HEADER + AMBIENT)
        m.AmbientLittle.unpack(bytes(range(37))).pack()
        m.AmbientBig.unpack(bytes([1, 0, 2, 0, 0, 0, 3, 0, 0, 0, 0, 0, 0, 0, 4, 1, 5, 6, 7, 8, 65, 0])).pack()
    return _ambient[0]


class World:
    """A scratch directory plus the modules defined in it; dispose() forgets everything."""

    def __init__(self):
        ambient()
        self.scratch = common.Scratch()

    def module(self, body, header=HEADER):
        return self.scratch.define(header + '\n' + body)

    def dispose(self):
        self.scratch.dispose()

    def __enter__(self):
        return self

    def __exit__(self, *a):
        self.dispose()
