"""The same E-A oracles under `python -O` (assert statements are stripped): a configuration dimension of the library's users.
Child side:   python -O -m mc.ea_o <module> <tier> <shard> <nshards> <outfile>      runs mod.optimized_specs(tier)
              python -O -m mc.ea_o --replay <module> <casefile> <outfile>
Parent side:  ea_o.run(module_name, tier) -> Stats (signatures prefixed 'python -O: '), ea_o.replay(module_name, case)."""
import json
import os
import pickle
import subprocess
import sys
import tempfile

from mc import common
from mc.common import Stats


def _child_main(argv):
    import importlib
    from mc import ea
    if sys.flags.optimize < 1:
        raise SystemExit('ea_o child must run under -O')
    if argv[0] == '--shard':
        # python -O -m mc.ea_o --shard <module> <function> <payload.json> <shard> <nshards> <outfile>
        mod = importlib.import_module(argv[1])
        payload = common.loads(open(argv[3]).read())
        st = getattr(mod, argv[2])(int(argv[4]), int(argv[5]), payload)
        for v in st.violations:
            if not v['sig'].startswith('python -O: '):
                v['sig'] = 'python -O: ' + v['sig']
                v['what'] = '[python -O] ' + v['what']
            v['case'] = dict(v['case'], optimized=True)
        pickle.dump(st, open(argv[6], 'wb'))
        return
    if argv[0] == '--replay':
        mod = importlib.import_module(argv[1])
        case = common.loads(open(argv[2]).read())
        vs = ea.replay_decl(mod, case)
        pickle.dump(vs, open(argv[3], 'wb'))
        return
    mod = importlib.import_module(argv[0])
    tier, shard, nshards, out = argv[1], int(argv[2]), int(argv[3]), argv[4]
    st = Stats()
    for i, spec in enumerate(mod.optimized_specs(tier)):
        if i % nshards != shard:
            continue
        spec = dict(spec, optimized=True)
        try:
            dc = ea.define(spec, common.SEED)
        except Exception as e:
            st.violate('python -O: definition-fails', 'defining %r under python -O raised %r' % (spec, e), {'spec': spec, 'optimized': True})
            continue
        try:
            st.inc('programs_under_O')
            mod.check_decl(dc, st, tier)
        finally:
            dc.world.dispose()
    for v in st.violations:
        if not v['sig'].startswith('python -O: '):
            v['sig'] = 'python -O: ' + v['sig']
            v['what'] = '[python -O] ' + v['what']
        v['case'] = dict(v['case'], optimized=True)
    pickle.dump(st, open(out, 'wb'))


def run(module_name, tier, nproc=None):
    nproc = nproc or min(8, common.NPROC)
    tmp = tempfile.mkdtemp(prefix='bverif-o-', dir='/dev/shm' if os.path.isdir('/dev/shm') else None)
    procs = []
    try:
        for i in range(nproc):
            out = os.path.join(tmp, 'o%d.pkl' % i)
            procs.append((out, subprocess.Popen([sys.executable, '-O', '-m', 'mc.ea_o', module_name, tier, str(i), str(nproc), out],
                                                cwd=common.VERIF, stdout=subprocess.PIPE, stderr=subprocess.STDOUT)))
        st = Stats()
        for out, p in procs:
            text = p.communicate()[0].decode('utf-8', 'replace')
            if p.returncode != 0 or not os.path.exists(out):
                st.notes.append('HARNESS: the python -O child failed (%d): %s' % (p.returncode, text[-400:]))
                continue
            st.merge(pickle.load(open(out, 'rb')))
        return st
    finally:
        import shutil
        shutil.rmtree(tmp, ignore_errors=True)


def run_shard(module_name, func, payload, nproc=None):
    """a check's own shard function (shard, nshards, payload) -> Stats once more in child interpreters started with -O"""
    nproc = nproc or min(8, common.NPROC)
    tmp = tempfile.mkdtemp(prefix='bverif-o-', dir='/dev/shm' if os.path.isdir('/dev/shm') else None)
    try:
        pf = os.path.join(tmp, 'payload.json')
        open(pf, 'w').write(common.dumps(payload))
        procs = []
        for i in range(nproc):
            out = os.path.join(tmp, 'o%d.pkl' % i)
            procs.append((out, subprocess.Popen([sys.executable, '-O', '-m', 'mc.ea_o', '--shard', module_name, func, pf, str(i), str(nproc), out],
                                                cwd=common.VERIF, stdout=subprocess.PIPE, stderr=subprocess.STDOUT)))
        st = Stats()
        for out, p in procs:
            text = p.communicate()[0].decode('utf-8', 'replace')
            if p.returncode != 0 or not os.path.exists(out):
                st.notes.append('HARNESS: the python -O child failed (%d): %s' % (p.returncode, text[-400:]))
                continue
            st.merge(pickle.load(open(out, 'rb')))
        return st
    finally:
        import shutil
        shutil.rmtree(tmp, ignore_errors=True)


def replay(module_name, case):
    tmp = tempfile.mkdtemp(prefix='bverif-o-', dir='/dev/shm' if os.path.isdir('/dev/shm') else None)
    try:
        cf, out = os.path.join(tmp, 'case.json'), os.path.join(tmp, 'out.pkl')
        open(cf, 'w').write(common.dumps(case))
        p = subprocess.run([sys.executable, '-O', '-m', 'mc.ea_o', '--replay', module_name, cf, out], cwd=common.VERIF, capture_output=True)
        if p.returncode != 0 or not os.path.exists(out):
            raise RuntimeError('python -O replay failed: %s' % p.stdout.decode()[-300:] + p.stderr.decode()[-300:])
        return pickle.load(open(out, 'rb'))
    finally:
        import shutil
        shutil.rmtree(tmp, ignore_errors=True)


if __name__ == '__main__':
    _child_main(sys.argv[1:])
