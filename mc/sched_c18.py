"""C18, derived expressions under threads: all schedules (one preemption; thorough two) of two threads that each derive the
regular expression of their own pattern packet (and apply it to a small corpus). Oracle: each thread gets what it gets alone."""
import os

from mc import common, mk, sched
from mc.common import Stats

SRC = mk.class_src('K', ['a = Int(1)', 'p = Bits(3)', 'q = Bits(5)', 'n = Int(1)', 'd = Data(n)', 'z = Int(2)'])
PATTERNS = [
    ({'a': 1, 'q': 3}, {'d': b'.x', 'z': 0x4142}),
    ({'p': 5}, {'a': 0x5c, 'n': 2}),
]
CORPUS = [b'\x01\x03\x00\x00\x00', b'\x09\xa2\x02.xAB', b'\x5c\xa0\x02QQ\x00\x00', b'\x07\x22\x01(\x00\x09', b'\x01\x63\x01Z\x00\x01', b'\x00']


def body(mod, fixed):
    def run():
        from bisturi.pattern_matching import anything_like
        import bisturi.pattern_matching as pm
        pat = anything_like(mod.K)
        for k, v in fixed.items():
            setattr(pat, k, v)
        rx = pat.as_regular_expression()
        # what the pre-filter would let through (the filter itself parses every candidate: many more scheduling points, nothing shared)
        return (rx.pattern, [bool(rx.match(c)) for c in CORPUS])
    return run


def _shard(shard, nshards, payload):
    import bisturi
    from bisturi.field import Field
    bound = 1 if payload['tier'] == 'quick' else 2
    bdir = os.path.dirname(bisturi.__file__)
    st = Stats()
    tot = {'schedules': 0, 'points': 0}
    for pi, (f1, f2) in enumerate(PATTERNS):
        worlds = []

        def fresh(f1=f1, f2=f2, worlds=worlds):
            while worlds:
                worlds.pop().dispose()
            w = mk.World()
            worlds.append(w)
            mod = w.module(SRC)
            return [body(mod, f1), body(mod, f2)], (bdir, w.scratch.dir)
        expected = []
        for i in range(2):
            bodies, _ = fresh()
            try:
                expected.append(('ok', bodies[i]()))
            except Exception as e:
                expected.append(sched.describe_exception(e))

        def check(x, expected=expected, pi=pi, f1=f1, f2=f2, fresh=fresh):
            if x.results != expected:
                again = []
                for _ in range(2):
                    bodies, dirs = fresh()
                    again.append(sched.Execution(bodies, x.choices, dirs).run().results)
                if again[0] != x.results or again[1] != x.results:
                    st.notes.append('HARNESS: schedule %r of pattern pair %d is not reproducible' % (x.choices, pi))
                    return
                bad = [i for i in range(2) if x.results[i] != expected[i]][0]
                st.violate('threads: a derived expression depends on what another thread derives',
                           'patterns %r | %r, schedule %r: thread %d got %r, alone it gets %r | %s' % (f1, f2, x.choices, bad, x.results[bad], expected[bad], SRC.replace('\n', '; ')),
                           {'threads': pi, 'schedule': x.choices})
        res = sched.explore(fresh, None, bound, check, field_base=Field, shard=shard, nshards=nshards)
        while worlds:
            worlds.pop().dispose()
        tot['schedules'] += res['schedules']
        tot['points'] += res['points']
        for e in res['errors'][:3]:
            st.notes.append('HARNESS: ' + e)
    st.n['thread_schedules'] = tot['schedules']
    st.n['thread_points'] = tot['points']
    return st


def run(tier):
    return common.merge_all(common.run_sharded(_shard, {'tier': tier}))


def replay(case):
    import bisturi
    bdir = os.path.dirname(bisturi.__file__)
    f1, f2 = PATTERNS[case['threads']]
    worlds = []

    def fresh():
        while worlds:
            worlds.pop().dispose()
        w = mk.World()
        worlds.append(w)
        mod = w.module(SRC)
        return [body(mod, f1), body(mod, f2)], (bdir, w.scratch.dir)
    expected = []
    for i in range(2):
        bodies, _ = fresh()
        expected.append(('ok', bodies[i]()))
    bodies, dirs = fresh()
    got = sched.Execution(bodies, case['schedule'], dirs).run().results
    while worlds:
        worlds.pop().dispose()
    if got != expected:
        return [{'sig': 'threads: a derived expression depends on what another thread derives', 'what': 'schedule %r: %r vs alone %r' % (case['schedule'], got, expected)}]
    return []
