#!/usr/bin/env python3
"""Regression over the seeded changes: every seeded/<name>/patch.diff is applied to a scratch worktree of /repo
HEAD and the quick check of its OWN property must report a violation.   usage: tools/seed_regress.py [names...]"""
import glob, json, os, shutil, subprocess, sys, tempfile

VERIF = os.path.dirname(os.path.dirname(os.path.abspath(__file__)))


def sh(cmd, env=None, cwd=None):
    e = dict(os.environ)
    e.update(env or {})
    r = subprocess.run(cmd, shell=True, capture_output=True, text=True, env=e, cwd=cwd)
    return r.returncode, r.stdout + r.stderr


names = sys.argv[1:] or sorted(os.path.basename(d) for d in glob.glob(os.path.join(VERIF, 'seeded', 'C*')))
bad = []
for name in names:
    d = os.path.join(VERIF, 'seeded', name)
    meta = json.load(open(os.path.join(d, 'meta.json')))
    prop = meta.get('reclassified') or meta['property']      # a change that breaks another property than the one its author named
    wt = tempfile.mkdtemp(prefix='seedrg-')
    os.rmdir(wt)
    sh('git -C /repo worktree add -q -f %s HEAD' % wt)
    out = tempfile.mkdtemp(prefix='seedrgo-')
    try:
        # --3way: a patch made against an earlier commit is merged through its pre-image blob instead of being
        # placed by context alone (identical code in two functions once let a hunk land in the wrong one)
        rc, o = sh('git -C %s apply --3way %s' % (wt, os.path.join(d, 'patch.diff')))
        if rc:
            sh('git -C %s reset -q --hard HEAD' % wt)
            rc, o = sh('git -C %s apply %s' % (wt, os.path.join(d, 'patch.diff')))
        if rc:
            print(name, 'PATCH DOES NOT APPLY', flush=True)
            bad.append(name)
            continue
        rc, o = sh('./check %s --tier quick' % prop, {'BISTURI_UNDER_TEST': wt, 'VERIF_OUT_DIR': out}, cwd=VERIF)
        nv = sum(1 for l in o.splitlines() if l.startswith('VIOLATION'))
        ok = rc == 1 and nv > 0
        print(name, prop, 'caught' if ok else 'MISSED (exit %d)' % rc, flush=True)
        if not ok:
            bad.append(name)
    finally:
        sh('git -C /repo worktree remove --force %s' % wt)
        shutil.rmtree(wt, ignore_errors=True)
        shutil.rmtree(out, ignore_errors=True)
print('missed:', bad)
sys.exit(1 if bad else 0)
