#!/bin/bash
# tools/run_some.sh <tier> C03 C04 ...
tier=$1; shift
cd "$(dirname "$0")/.."
for c in "$@"; do
  s=$(date +%s)
  out=$(./check $c --tier $tier 2>&1); r=$?
  e=$(date +%s)
  echo "$c exit=$r $((e-s))s $(echo "$out" | grep -c '^VIOLATION') violations $(echo "$out" | grep -c '^KNOWN-FINDING') known | $(echo "$out" | tail -1 | cut -c1-150)"
done
