#!/usr/bin/env python3
"""Writes the prompts of the next wave of seeded changes from the previous wave's prompts plus the summaries of the
changes kept under seeded/.   usage: tools/mut_prompts.py <prev-wave-letter> <new-wave-letter> <prompt-dir>"""
import json, os, re, sys

VERIF = os.path.dirname(os.path.dirname(os.path.abspath(__file__)))
prev, new, pdir = sys.argv[1], sys.argv[2], sys.argv[3]
WORDS = {2: 'two', 3: 'three', 4: 'four', 5: 'five', 6: 'six', 7: 'seven', 8: 'eight', 9: 'nine', 10: 'ten', 11: 'eleven', 12: 'twelve', 13: 'thirteen'}
STEER = {
    'f': ("Look for what is LEFT: values and sizes at representation boundaries (lengths and counts of 255/256/257 with one- and "
          "two-byte length fields, integers wider than 8 bytes, bit runs longer than 8 bytes, negative numbers in every place an integer is accepted, "
          "bool / int subclasses where ints are expected), the SECOND use of an object (pack() twice, unpack after a failed unpack, pack after a failed "
          "pack, a packet reused with new values, a class used again after another class was defined or after it raised), error paths (what state a "
          "failure leaves behind in the packet, the class, the field objects, the cache directory), code paths only reached when the generation options "
          "are partly off (generate_for_pack xor generate_for_unpack, vectorize off, annotate off), fields whose payload is EMPTY (zero bytes, zero "
          "elements, absent optional) at the very start or the very end of the data or of a nested packet, and features used in an unusual ORDER in a "
          "declaration (positioned field first, described field last, bits after a variable field, optional before its flag is known to be set by a "
          "default). A single small change is fine as long as ordinary use and the doc examples do not expose it. The existing 40 tests must still pass."),
    'g': ("Look for what is LEFT in the lesser-read parts: packet_builder.py (how the fields written in the class body are collected, renamed, given "
          "slots and descriptors, how the move pseudo-fields and the hidden fields of Bits/Sequence/Optional are inserted, how the source comments "
          "are attached), the prototype / pickling / cloning machinery in packet.py, pattern_matching.py, the less common branches of codegen.py "
          "(annotate off, vectorize off, how a run of fixed fields is split by a variable field or by a change of byte order, fields without struct "
          "code inside a run), and multi-class programs: three or more classes that reference each other, one class used both as a plain reference "
          "and as the element of a repeated field, one sub-packet class shared by two holders that have different class options, a holder with "
          "generated code around a nested class without (or the other way round), long declarations (twenty or more fields), field names that are "
          "prefixes of each other or look like the library's hidden names. A single small change is fine as long as ordinary use and the doc "
          "examples do not expose it. The existing 40 tests must still pass."),
    'h': ("Look for what only shows at SCALE: a defect that stays invisible while everything is small and appears with more than three or four "
          "elements in a list, more than three levels of nesting, byte strings longer than eight or sixteen bytes, counts and lengths of 16, 32, 64 and "
          "more, offsets beyond 64 or 255, more than four fields in a run of the same kind, more than three packets of a class alive at once, more than "
          "two redefinitions of a class, the fifth or later operation on the same object, more than two threads or processes, the second and later "
          "chunk of a buffer (io buffers of 4096 / 8192 bytes), caches or tables that change behaviour once they hold a certain number of entries. "
          "Typical shapes: a threshold or fast path chosen by size, a fixed-size scratch area, a loop that handles the first N items differently, "
          "a slice bound that is right only for short data, a recursion or stack depth assumption. A single small change is fine as long as "
          "ordinary use and the doc examples do not expose it. The existing 40 tests must still pass."),
    'i': ("Look at the CONTRACTS between components, where one side can be changed and still look locally right: what the code generator assumes "
          "about a field (struct_code, is_fixed, is_bigendian, byte_count, field_name versus the name in the field list), what Sequence / Optional "
          "assume about the field they wrap (a fresh object per unpack, the scratch slot, the extra slots it asks for, its pack_regexp), what the class "
          "builder assumes about _describe_yourself and the order of fields and move pseudo-fields, what Ref assumes about prototypes, selectors and "
          "callables, what PacketError assumes about who adds which stack entry and which offset, what the pattern matcher assumes about pack_regexp "
          "of each field kind, what the cache assumes about the cookie and the file, what descriptors assume about slot names. Change ONE side of such "
          "a contract so that a particular COMBINATION of two field kinds, two modifiers or two options breaks while each of them alone keeps working "
          "(for example: a described field inside a repeated reference under class align; an optional Bits run; a selector that returns a positioned "
          "field; a user-defined Field subclass next to generated code). A single small change is fine as long as ordinary use and the doc examples do "
          "not expose it. The existing 40 tests must still pass."),
    'j': ("Look at what the ENVIRONMENT can answer differently, and make the library misbehave only under one such answer while every default "
          "environment keeps working: the interpreter started with -O (assert statements vanish, __debug__ is False) or -OO, bytecode writing on or "
          "off, a cache directory that cannot be created or written (read-only, a file where the directory should be, no space left on device), files "
          "that appear, vanish or change between two steps, an os call that fails with OSError where it usually succeeds, the clock going backwards or "
          "two steps in the same second, a different default encoding for open(), a raw input that is a subclass of bytes, a low recursion limit, "
          "a second thread, a second process, classes defined inside functions or in modules that share a name. Typical shapes: validation written as "
          "an assert, an except clause that is too narrow or too wide around a file operation, a fallback path that nobody exercised, an optimisation "
          "keyed on __debug__ or sys.flags. A single small change is fine as long as ordinary use and the doc examples do not expose it. The existing "
          "40 tests must still pass."),
    'k': ("This time the change must look like ROUTINE MAINTENANCE that a linter, a formatter-plus-cleanup pass or a Python-version clean-up would "
          "suggest, where exactly one such edit is subtly not behaviour-preserving: `x == None` -> `x is None` or `if x:` -> `if x is not None:` (or the "
          "reverse) where x can be 0, b'' or []; a bare except narrowed (or `except Exception` widened) so that another exception class escapes or is "
          "swallowed; `dict.get(k) or default` versus `dict.get(k, default)`; a mutable default argument introduced or removed; a loop rewritten as a "
          "comprehension or a generator that is consumed twice or never; `%` formatting to f-string with a tuple argument; integer division `/` vs `//`; "
          "`sorted` / `set` / `dict` ordering assumptions; `isinstance(x, int)` now also true for bool; `is` versus `==` on small ints or bytes; removing a "
          "'redundant' copy, `list(...)`, `bytes(...)` or parenthesis; a chained comparison; operator precedence of `not`/`and`/`or` or of `%` and `*`; an "
          "early return hoisted above a needed side effect; a variable renamed in all places but one; shadowing a builtin or an outer name. Keep the diff "
          "looking like clean-up (several harmless edits of that kind around the harmful one are welcome). Ordinary use and the doc examples must not "
          "expose it. The existing 40 tests must still pass."),
    'l': ("This time the change must look like a well-meant OPTIMISATION or a small FEATURE pull request with a sensible commit message: a cache or "
          "memo whose key leaves out something the result depends on; lazy initialisation on first use where the first user decides for all later ones; "
          "something precomputed at class definition (or at the first pack/unpack) that really depends on the packet, the call or the options; an "
          "'invariant' hoisted out of a loop that is not invariant; a buffer, list, dict or helper object reused across calls, packets or classes; a fast "
          "path for the common case whose guard is slightly too wide or whose result differs in a corner (sign, byte order, empty, alignment, offset != 0); "
          "skipping work when 'nothing changed' judged by a test that misses a kind of change; a local alias or bound method captured too early; a new "
          "keyword / option / accepted input type (bytearray, memoryview, str, int-like, iterables) whose plumbing changes how an EXISTING input or "
          "declaration is treated in a corner; a convenience normalisation (strip, lower, int(), bytes(), sorted()) applied where identity mattered. It "
          "must not be one of the mechanisms listed above, must stay invisible in ordinary use and in the doc examples, and the existing 40 tests must "
          "still pass."),
    'm': ("This time the change must look like a MODERNISATION or HARDENING commit: code moved to newer Python idioms - functools.lru_cache / "
          "cached_property / functools.cache on a method or helper (what is the key? what if the argument is mutated or unhashable?), dataclasses or "
          "__slots__ added to a helper class, int.to_bytes / from_bytes with their defaults, bytes.hex / fromhex, str / bytes methods (removeprefix, "
          "partition, split with maxsplit) in place of manual slicing, enumerate / zip(strict=...) / itertools in place of index loops, the walrus "
          "operator, match statements, dict union, contextlib.suppress, super() without arguments, an Enum or a constant table in place of literals, "
          "typing-driven 'narrowing' (isinstance checks that now reject or coerce an input that used to work: bool, int subclasses, bytearray, "
          "memoryview, tuples for lists, generators); or DEFENSIVE input validation and nicer error messages added at an API boundary that evaluate "
          "something eagerly, consume an iterator, clamp a value, copy or fail to copy an argument, or turn a late error into an early one of another "
          "class. Exactly one of the edits must subtly change behaviour for an input, declaration or sequence of calls that used to work and is "
          "plausible in real use; it must not be one of the mechanisms listed above, must stay invisible in ordinary use and in the doc examples, and "
          "the existing 40 tests must still pass."),
}
for i in range(1, 21):
    pid = 'C%02d' % i
    src = open(os.path.join(pdir, '%s%s.txt' % (pid, prev))).read()
    src = src.replace(pid + prev, pid + new)
    head, tail = src.split('ADDITIONAL CONSTRAINT:', 1)
    items = re.findall(r'^  \((\d+)\) (.*)$', tail, flags=re.M)
    n = len(items) + 1
    meta = json.load(open(os.path.join(VERIF, 'seeded', pid + prev, 'meta.json')))
    summ = meta.get('summary') or meta.get('meta', {}).get('summary')
    lines = ['  (%s) %s' % (k, v) for k, v in items] + ['  (%d) %s' % (n, summ)]
    out = (head + 'ADDITIONAL CONSTRAINT: %s other engineers have already seeded defects for this property; yours must use a DIFFERENT mechanism '
           'and a different code site than all of them:\n' % WORDS[n] + '\n'.join(lines) + '\n' + STEER[new] + '\n')
    open(os.path.join(pdir, '%s%s.txt' % (pid, new)), 'w').write(out)
    print(pid + new, len(out))
