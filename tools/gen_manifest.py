#!/usr/bin/env python3
"""Regenerates MANIFEST.json from the table below (kept in one place so that it is always valid)."""
import json, os, sys
HERE = os.path.dirname(os.path.dirname(os.path.abspath(__file__)))
sys.path.insert(0, HERE)
from tools.manifest_table import CHECKS, NOT_APPLICABLE, ENGINES

props = [json.loads(l) for l in open(os.path.join(HERE, 'properties.jsonl'))]
ids = [p['id'] for p in props]
checks = []
for pid in ids:
    if pid not in CHECKS:
        continue
    c = CHECKS[pid]
    checks.append({
        'property_id': pid,
        'quick_cmd': './check %s --tier quick' % pid,
        'thorough_cmd': './check %s --tier thorough' % pid,
        'evidence_file': 'evidence/%s.json' % pid,
        'replay_cmd_template': './check %s --replay {path}' % pid,
        'engine': c['engine'],
        'level_claimed': {'category': 'model_checking', 'text': c['text'], 'design_ref': c.get('design_ref', 'DESIGN.md section 3, ' + pid)},
        'level_note': c['note'],
        'technique': c['technique'],
    })
na = [{'property_id': pid, 'reason': NOT_APPLICABLE.get(pid, 'check not built yet in this tree')} for pid in ids if pid not in CHECKS]
m = {
    'version': 1,
    'setup_cmd': './check --selftest',
    'hooks': {
        'guard': 'BISTURI_VERIF',
        'enable': 'no hooks are needed: bisturi is pure Python and is imported from /repo\'s working tree by every check; all interposition (file system, scheduler) is done from the harness side',
        'baseline_off_cmd': 'cd /repo && /venv/bin/python -m pytest -ra -q -p no:cacheprovider --timeout=900 --continue-on-collection-errors',
        'source_commits': [],
        'add_only': True,
    },
    'engines': ENGINES,
    'checks': checks,
    'not_applicable': na,
    'notes': 'Bounded exhaustive exploration of the implementation (explicit enumeration of declarations x inputs, operation histories, thread schedules, file-system step interleavings and crash points), see DESIGN.md. fix: commits in /repo are listed in known_findings.json.',
}
json.dump(m, open(os.path.join(HERE, 'MANIFEST.json'), 'w'), indent=1)
print('checks:', len(checks), 'not_applicable:', len(na))
