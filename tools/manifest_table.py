ENGINES = [
    {'name': 'E-A', 'path': 'mc/ea.py', 'serves_properties': [], 'kind_free_text': 'declaration x input explorer: enumerated packet declarations rendered to real classes, all byte strings up to a length bound, reference interpreter as oracle'},
    {'name': 'E-B', 'path': 'mc/props', 'serves_properties': ['C11'], 'kind_free_text': 'operation-history explorer: all histories up to a depth over a small alphabet on fresh real objects vs a reference model'},
    {'name': 'E-C', 'path': 'mc/sched.py, mc/fsx.py', 'serves_properties': [], 'kind_free_text': 'schedule / fault explorer: preemption-bounded thread schedules, file-system step interleavings and crash points'},
]

CHECKS = {
    'C11': {
        'engine': 'E-B',
        'technique': 'explicit-state exploration: exhaustive enumeration of all operation histories up to depth 3/4 on the real Fragments, compared step by step with a sparse-array reference model',
        'text': 'All histories of insert/append/extend (36 operations: positions 0..6, chunks of length 0..3) up to depth 3 (quick) / 4 (thorough) are executed on a fresh real Fragments; after every operation raise-iff-occupied, stored bytes, cursor, extent and tobytes() are compared with a dict-based model. Bounded exhaustive: no claim beyond depth/position/chunk bounds.',
        'note': 'Trusts the 60-line reference model in mc/props/c11.py; positions 0..6, chunk lengths 0..3; for empty chunks only the extent is compared (the statement leaves the rest open).',
    },
}

NOT_APPLICABLE = {}
