ENGINES = [
    {'name': 'E-A', 'path': 'mc/ea.py', 'serves_properties': ['C01','C02','C03','C04','C05','C06','C07','C08','C09','C10','C12','C14','C18','C19','C20'], 'kind_free_text': 'declaration x input explorer: enumerated packet declarations rendered to real classes, all byte strings up to a length bound, reference interpreter as oracle'},
    {'name': 'E-B', 'path': 'mc/props', 'serves_properties': ['C11', 'C13', 'C15', 'C17'], 'kind_free_text': 'operation-history explorer: all histories up to a depth over a small alphabet on fresh real objects vs a reference model'},
    {'name': 'E-C', 'path': 'mc/sched.py, mc/fsx.py', 'serves_properties': ['C13', 'C15', 'C16'], 'kind_free_text': 'schedule / fault explorer: preemption-bounded thread schedules, file-system step interleavings and crash points'},
]

CHECKS = {
    'C11': {
        'engine': 'E-B',
        'technique': 'explicit-state exploration: exhaustive enumeration of all operation histories up to depth 3/4 on the real Fragments, compared step by step with a sparse-array reference model',
        'text': 'All histories of insert/append/extend (36 operations: positions 0..6, chunks of length 0..3) up to depth 3 (quick) / 4 (thorough) are executed on a fresh real Fragments; after every operation raise-iff-occupied, stored bytes, cursor, extent and tobytes() are compared with a dict-based model. Bounded exhaustive: no claim beyond depth/position/chunk bounds.',
        'note': 'Trusts the 60-line reference model in mc/props/c11.py; positions 0..6, chunk lengths 0..3; for empty chunks only the extent is compared (the statement leaves the rest open).',
    },
}

CHECKS['C05'] = {
    'engine': 'E-A',
    'technique': 'exhaustive enumeration of Int configurations x byte patterns / values on real classes vs positional-arithmetic reference',
    'text': 'Every Int configuration (widths 1..9 quick, +16,17 thorough; signed/unsigned; 5 endianness spellings; 3 class defaults; alone or next to a same/opposite-order neighbour; generated and generic code) is compiled into a real class; decode is checked on all 2^(8n) patterns for n<=2 and the lane-exhaustive set above, encode on all/boundary values plus values that must raise PacketError.',
    'note': 'Reference = 20 lines of positional arithmetic; local byte order taken from sys.byteorder; n>2 is lane-exhaustive, not 2^(8n).',
}
CHECKS['C07'] = {
    'engine': 'E-A',
    'technique': 'exhaustive enumeration of bit-width compositions x byte patterns / per-field values on real classes vs bit-string slicing reference',
    'text': 'All 128 compositions of 8 bits, all 32768 (quick: the 576 with <=4 parts) compositions of 16 bits and a boundary family for 24..48 bits become real classes; unpack on all patterns (8 bits) or the lane pattern set, pack on per-field values incl. 2^w, negative, with all-zero/all-one neighbours; every non-multiple-of-8 total up to 17 must be rejected at class definition.',
    'note': 'Reference = binary string slicing; >16-bit groups use a pattern family, not all patterns.',
}
CHECKS['C09'] = {
    'engine': 'E-A',
    'technique': 'exhaustive enumeration of expression trees up to depth 2 x operand values, real deferred machinery vs eager Python evaluation',
    'text': 'All trees of depth <=2 over the 18 binary operators in every operand order, unary operators, indexing/slicing/len and the n-ary selectors (all four call forms) are built through the real operator overloads, compiled by compile_expr_into_callable and evaluated on all operand values a,b in -2..3 (and sequence/bytes operands); value, type and exception class must equal eager evaluation. Depth<=1 and selected depth-2 trees also go through Data size / repeated count / when in real classes.',
    'note': 'Operand domain -2..3; nesting depth 2 (quick: depth 2 nested on one side).',
}

_EA_NOTE = 'Trusts the reference interpreter mc/refsem.py (written from the documentation, DESIGN.md appendix A) and the renderer mc/ir.py; bounded: component alphabet of mc/alphabet.py, declarations of <=2 (quick) / <=3 (thorough) components x 3 wrappers, inputs = all strings up to the length the per-declaration budget allows over a declaration-specific byte alphabet.'
_EA_TECH = 'bounded exhaustive enumeration of packet declarations x all byte strings up to a length bound, executed on real classes, '

CHECKS['C01'] = {'engine': 'E-A', 'technique': _EA_TECH + 'consumed-interval oracle from a reference interpreter',
    'text': 'Every declaration of the alphabet except the by-design exclusions, every input up to the bound and start offsets 0..2: where unpack succeeds with the reference values, pack() must equal raw on every consumed byte, "." elsewhere, not exceed the traversed region, and raise PacketError iff two fields consumed the same byte.',
    'note': _EA_NOTE}
CHECKS['C02'] = {'engine': 'E-A', 'technique': _EA_TECH + 'reference encoder + reparse oracle',
    'text': 'All distinct value assignments the reference parses from the input enumeration (plus defaults), built by keywords and by attribute assignment: pack() == reference encoding; when the reference round-trips, unpack consumes the whole string and returns equal values, assert_consistency() is True, the packet is unchanged.',
    'note': _EA_NOTE}
CHECKS['C04'] = {'engine': 'E-A', 'technique': _EA_TECH + 'acceptance compared with a strict reference interpreter on every truncation',
    'text': 'unpack may succeed only if the strict reference succeeds; the input sets are prefix-closed and extended byte by byte for wide integers (3..16 bytes) and 24..48-bit groups, so every truncation point of every encoding up to the bound is tried; silent=True returns None exactly when unpack raises.',
    'note': _EA_NOTE}
CHECKS['C06'] = {'engine': 'E-A', 'technique': _EA_TECH + 'sentinel-framed single-Data programs vs reference',
    'text': 'pre/Data/post programs for every sizing mode x include_delimiter x consume_delimiter x search_buffer_length (unset,0,2,3), flat and in a repeated reference, generated and generic; all inputs up to the bound (markers straddling the window, overlapping prefixes aab, empty values): value, cursor, error cases and pack = value + literal delimiter.',
    'note': _EA_NOTE}
CHECKS['C08'] = {'engine': 'E-A', 'technique': _EA_TECH + 'acceptance, values and end offset vs reference interpreter',
    'text': 'All repeated/optional/reference components (count/condition as constant, field, expression, callable; until; when; selectors; per-element alignment) alone, paired and nested through wrappers; unpack must agree with the reference on acceptance, every value and the end offset for all inputs up to the bound.',
    'note': _EA_NOTE}
CHECKS['C19'] = {'engine': 'E-A', 'technique': 'exhaustive enumeration of declarations x all subsets of keyword overrides vs reference defaults',
    'text': 'K() (twice: values and no shared mutable object) and K(**kw) for every subset of top-level fields on every declaration, module-level and function-local; values vs reference defaults, pack vs reference encoding. embed=True is a listed known finding.',
    'note': _EA_NOTE}
CHECKS['C20'] = {'engine': 'E-A', 'technique': 'exhaustive enumeration of declarations x accepted values x all single-leaf mutations (metamorphic)',
    'text': 'For every declaration (all positioned/aligned/Em/class-align ones included) and every distinct accepted value: parsed==parsed, constructed==parsed, every one-leaf mutation at any depth unequal, twin class/None/non-packet unequal, repr is a str, nothing raises.',
    'note': _EA_NOTE}

CHECKS['C03'] = {'engine': 'E-A', 'technique': 'exhaustive differential enumeration: every declaration under all 16 code-generation option combinations x all inputs up to a bound x parsed and ill values',
    'text': 'Each declaration (runs of fixed-size fields of every width/order/sign, variable fields around runs, Bits, described fields, embed, class options, the component alphabet x wrappers) is compiled 16 times; unpack outcome (values, end offset, PacketError/other) and pack outcome (bytes / PacketError) must coincide across all variants for every input up to the bound and every parsed or ill-valued packet; the harness verifies each variant really runs the generated resp. generic path.',
    'note': 'No reference model: the implementation is compared with itself. Bounded as E-A. Wrong-length values for constant Data excluded (not of the declared type).'}
CHECKS['C10'] = {'engine': 'E-A', 'technique': _EA_TECH + 'position-revealing ramp inputs, parse positions and pack placement vs the reference positioning rule',
    'text': 'at x 3 references x constant/field/callable, shift x 4, aligned x 3 references x 4 targets on Int/Data/repeated/reference/Em/Int(3), x 3 wrappers x start offsets 0..3, class align, per-element alignment, pairs of positioned fields: unpack must read where the rule says (values, end offset), pack must place every field where the same rule says with "." in skipped bytes or raise on overlap.',
    'note': _EA_NOTE}
CHECKS['C12'] = {'engine': 'E-A', 'technique': _EA_TECH + 'failure location compared with the field the reference interpreter blames',
    'text': 'Every rejected input of the enumeration (all truncation points, corrupted counts, missing delimiters; depth 0..2; generated/generic/vectorised) and every ill value at every leaf on pack: PacketError, phase flag, innermost (offset, field or containing run, class), outward enclosing fields, str(e), silent=None, non-bytes -> ValueError.',
    'note': _EA_NOTE + ' Outer stack entries compared by name/class only.'}
CHECKS['C14'] = {'engine': 'E-A', 'technique': 'exhaustive metamorphic enumeration: declarations x inputs x all prefixes/suffixes up to a bound, implementation compared with itself',
    'text': 'For every in-scope declaration and every input: accepted -> for all (prefix, suffix) pairs up to length 1 (quick) / 2 (thorough) over the declaration alphabet the values are equal and unpack_impl returns len(prefix)+end; rejected -> error offsets shift by len(prefix).',
    'note': 'Reference used only to decide scope (region extent, regex-ended regions, reads before the offset). Excludes start-of-data positioning, class/element alignment, read-to-end, consume_delimiter=False.'}

CHECKS['C17'] = {'engine': 'E-B', 'technique': 'explicit-state exploration: exhaustive enumeration of all operation histories up to depth 4/5 on real packets vs a three-variable reference model',
    'text': 'All histories (set tracked field x3, set described field x3, delete, pack, unpack) of length <=4 (quick) / <=5 (thorough) from 6 initial states, for AutoLength, Auto, a described field inside a vectorised run and inside a referenced sub-packet, under generated / generic / pack-only / unpack-only / non-vectorised code: after every step the attribute reads, pack() output, absence of __dict__ and a bystander packet are compared with the model (enabled, explicit, a).',
    'note': 'Model is 10 lines in mc/props/c17.py; lengths <= 7; depth bound as stated.'}
CHECKS['C18'] = {'engine': 'E-A', 'technique': 'exhaustive enumeration of flat declarations x all subsets of fixed fields x concrete value assignments x a complete corpus up to a length bound',
    'text': 'For every flat declaration of <=2 (thorough <=3) components over Int/Bits/Data in every sizing mode, every subset of fields fixed to the values of concrete packets (regex-metacharacter bytes first) with the rest Any(): the expression builds, every corpus string unpacking to an equal packet matches it, and filter() agrees with and without the pre-filter.',
    'note': 'Corpus = all strings up to the bound over a base alphabet and over regex metacharacters; at most 6 (quick) / 16 (thorough) concrete assignments per declaration.'}

CHECKS['C13'] = {'engine': 'E-B + E-C', 'technique': 'explicit-state exploration of all operation histories up to depth 3/4 over up to 3 live packets, plus stateless model checking of real threads: all schedules up to a preemption bound (iterative context bounding) under a settrace-based cooperative scheduler',
    'text': 'Sequential: 17 scenarios (one per shared-state shortcut: sequence/optional scratch slots, Bits shared integer, prototypes by pickle and deepcopy, selectors returning fresh or the same objects, marker/regex Data, described fields, shared sub-packet classes, default lists, a prototype shared by two classes, positioned fields) x generated/generic; all histories of construct/unpack/set scalar/append/set nested/pack; after every step all bystanders read and pack as before, pack is repeatable and pure, no mutable sub-object is shared, defaults are intact. Threads: every schedule with <=1 (quick) / <=2 (thorough) preemptions of 2 (thorough also 3) threads doing unpack+pack or construct+pack on distinct packets, switching at every source line of bisturi and of the generated modules; each thread must observe what it observes alone; violations are replayed twice before being reported.',
    'note': 'Switches only at line boundaries inside bisturi/generated code; preemption bound as stated; selectors follow the Ref docstring (fresh object per call) except in the dedicated selector-shared scenario. F2 (regex delimiter not kept) is a listed known finding.'}

CHECKS['C15'] = {'engine': 'E-B on E-C', 'technique': 'explicit-state exploration: exhaustive enumeration of all operation histories up to depth 3/4 over the real code cache (real files, harness-controlled clock, virtual processes), violating traces replayed with real interpreter processes',
    'text': 'All histories of define(declaration, options) x {A, same-length sibling A2, B, C, V} x option sets / new process / clock tick / bytecode toggle / forget sources, run on the real generate_code and importlib over real files whose time stamps the harness sets (everything in one second unless a tick occurs). After every definition the new class and every class still alive in the process must behave per its own declaration on a battery; violating histories and a share of passing ones are replayed with real interpreter processes. In addition every history of up to 4 (thorough 5) REAL interpreter processes, each plain or started with -O, defining A or its same-length sibling in one harness second, is run and checked (stale bytecode of another optimisation level survives the clean-up).',
    'note': 'Process isolation (private module table, import locks, bytecode flag) and the clock are modelled, files and import logic are real (mc/fsx.py, mc/cache.py); expected behaviour per declaration is 5 hand-written lines each; depth bound as stated.'}
CHECKS['C16'] = {'engine': 'E-C', 'technique': 'fault enumeration of every crash point (before every file-system step, after every character written) plus explicit-state depth-first search with a visited set over all interleavings of the file-system steps of two processes, on the real implementation under an interposition layer',
    'text': 'Crash: a definition is killed before each interposed file-system step and after each character of each write from several initial cache states; from every distinct resulting directory a fresh process defines the same, the same-length sibling and another declaration: it must succeed and behave per its own declaration. Interleavings: all schedules of two concurrently defining processes (identical, same-length, different declarations; several initial cache states; bytecode on/off; one clock tick anywhere) covered by DFS with a visited set keyed by (directory contents+mtimes, clock, per process pc + digest of observations); violating crash states are re-run with a real interpreter; the first violating schedule per signature and two passing schedules per pair are replayed by two real interpreter processes held to the recorded step order (a divergence is a harness failure). File objects are explored in three models: every write() visible at once, a 512-character buffer, and buffered until close() with a kill after every character.',
    'note': 'close() is a step only in the buffered models; steps on a file whose name carries the writing thread id are not choice points unless a directory listing occurred (they commute); 2 processes, <=1 clock tick; schedule cap reported in the evidence (exhaustive=false when hit).'}

# extensions of the eleventh and twelfth wave of seeded changes (DESIGN.md 10.5)
_ADDED = {
    'C02': 'Also every declaration with class options of C01 (byte order, alignment, search window 0/2/3), and nested pack() calls: a described length and checksum computed by serializing the sub-packet, flat / held / in a list.',
    'C03': 'Several described fields per class; variable-size byte strings get well-typed changes of length after parsing.',
    'C07': 'Several runs per class separated by an integer / delimited string / list (every run walks its patterns while the others hold 00/ff/a5); runs that are not multiples of 8 although the class total is must be rejected.',
    'C08': 'For purely sequential declarations pack() of the parsed packet must be exactly the consumed bytes (absent optionals and empty lists emit nothing, present ones - 0 and b"" included - emit their bytes); selectors whose alternatives differ only in sign / byte order / delimiter handling.',
    'C09': 'Constants of every kind (tuples of length 0..3, None, float, text, empty/non-empty strings and lists) as operand, option and indexed; what Python\'s own dispatch folds or refuses before bisturi sees it is counted as not expressible.',
    'C13': 'Plus scenarios user-descriptor (a user-written descriptor with an after-parsing hook) and factory-siblings (three same-named classes from one class statement that share one cached module).',
    'C14': 'One prefixed input per case also as a bytes subclass and as the file-backed bisturi.util.SeekableFile; every integer width 1..9 in every byte-order spelling, signed and unsigned, as the last field.',
    'C15': 'Further passes: field names beyond ascii; two declarations from one class statement with textually identical generated code; all sequences of 5 (thorough 6) definitions of three declarations within one process that meets a filled cache.',
    'C16': 'Every file-system step is also made to FAIL; a reduced exploration under python -O; all sequences of 2..3 (thorough 4) real interpreter processes in which a later one runs with -W error.',
    'C18': 'Truth-valued sizes (found F12); ONE pattern object whose fields are fixed, relaxed to Any() and fixed again one by one, filter() compared with and without the pre-filter after every change; two threads deriving expressions under all schedules with <=1 (thorough 2) preemptions.',
}
_ADDED_M = {
    'C04': 'A rejection must be a PacketError (and None with silent=True): any other exception class is a violation.',
    'C06': 'Delimiter expressions compiled with flags (re.I, re.S, re.M).',
    'C08': 'Until-conditions whose result is a truth value rather than a bool.',
    'C09': 'Every constant slice with a step (incl. negative and zero).',
    'C10': 'Positioning targets that are described (Auto) fields: parsing follows the value found in the data.',
    'C13': 'Byte-string values that are mutable buffers (bytearray).',
    'C16': 'The crash / failing-step exploration also covers a declaration with non-ascii field names.',
    'C17': 'Tracked values that are bytearrays.',
    'C18': 'The candidates of filter() also as a one-shot iterator.',
}
for _k, _v in _ADDED_M.items():
    _ADDED[_k] = (_ADDED.get(_k, '') + ' ' + _v).strip()
for _k, _v in _ADDED.items():
    CHECKS[_k]['text'] += ' ' + _v
CHECKS['C11'] = dict(CHECKS['C11'], text=CHECKS['C11']['text'] + ' Histories with append / extend are replayed through the real append() and extend() (list and one-shot generator) and must end in the same buffer.')
CHECKS['C16']['note'] += ' Each of the two processes makes ONE definition (a defect that needs several definitions in one process while another writes is left to the sequential histories of C15, see seeded C16l).'

NOT_APPLICABLE = {}
