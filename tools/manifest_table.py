ENGINES = [
    {'name': 'E-A', 'path': 'mc/ea.py', 'serves_properties': [], 'kind_free_text': 'declaration x input explorer: enumerated packet declarations rendered to real classes, all byte strings up to a length bound, reference interpreter as oracle'},
    {'name': 'E-B', 'path': 'mc/props', 'serves_properties': ['C11', 'C13', 'C15', 'C17'], 'kind_free_text': 'operation-history explorer: all histories up to a depth over a small alphabet on fresh real objects vs a reference model'},
    {'name': 'E-C', 'path': 'mc/sched.py, mc/fsx.py', 'serves_properties': [], 'kind_free_text': 'schedule / fault explorer: preemption-bounded thread schedules, file-system step interleavings and crash points'},
]

CHECKS = {
    'C11': {
        'engine': 'E-B',
        'technique': 'explicit-state exploration: exhaustive enumeration of all operation histories up to depth 3/4 on the real Fragments, compared step by step with a sparse-array reference model',
        'text': 'All histories of insert/append/extend (36 operations: positions 0..6, chunks of length 0..3) up to depth 3 (quick) / 4 (thorough) are executed on a fresh real Fragments; after every operation raise-iff-occupied, stored bytes, cursor, extent and tobytes() are compared with a dict-based model. Bounded exhaustive: no claim beyond depth/position/chunk bounds.',
        'note': 'Trusts the 60-line reference model in mc/props/c11.py; positions 0..6, chunk lengths 0..3; for empty chunks only the extent is compared (the statement leaves the rest open).',
    },
}

CHECKS['C05'] = {
    'engine': 'E-A',
    'technique': 'exhaustive enumeration of Int configurations x byte patterns / values on real classes vs positional-arithmetic reference',
    'text': 'Every Int configuration (widths 1..9 quick, +16,17 thorough; signed/unsigned; 5 endianness spellings; 3 class defaults; alone or next to a same/opposite-order neighbour; generated and generic code) is compiled into a real class; decode is checked on all 2^(8n) patterns for n<=2 and the lane-exhaustive set above, encode on all/boundary values plus values that must raise PacketError.',
    'note': 'Reference = 20 lines of positional arithmetic; local byte order taken from sys.byteorder; n>2 is lane-exhaustive, not 2^(8n).',
}
CHECKS['C07'] = {
    'engine': 'E-A',
    'technique': 'exhaustive enumeration of bit-width compositions x byte patterns / per-field values on real classes vs bit-string slicing reference',
    'text': 'All 128 compositions of 8 bits, all 32768 (quick: the 576 with <=4 parts) compositions of 16 bits and a boundary family for 24..48 bits become real classes; unpack on all patterns (8 bits) or the lane pattern set, pack on per-field values incl. 2^w, negative, with all-zero/all-one neighbours; every non-multiple-of-8 total up to 17 must be rejected at class definition.',
    'note': 'Reference = binary string slicing; >16-bit groups use a pattern family, not all patterns.',
}
CHECKS['C09'] = {
    'engine': 'E-A',
    'technique': 'exhaustive enumeration of expression trees up to depth 2 x operand values, real deferred machinery vs eager Python evaluation',
    'text': 'All trees of depth <=2 over the 18 binary operators in every operand order, unary operators, indexing/slicing/len and the n-ary selectors (all four call forms) are built through the real operator overloads, compiled by compile_expr_into_callable and evaluated on all operand values a,b in -2..3 (and sequence/bytes operands); value, type and exception class must equal eager evaluation. Depth<=1 and selected depth-2 trees also go through Data size / repeated count / when in real classes.',
    'note': 'Operand domain -2..3; nesting depth 2 (quick: depth 2 nested on one side).',
}

NOT_APPLICABLE = {}
