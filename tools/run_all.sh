#!/bin/bash
# runs every registered check of a tier; prints one line per check
tier=${1:-quick}
cd "$(dirname "$0")/.."
rc=0
for c in C01 C02 C03 C04 C05 C06 C07 C08 C09 C10 C11 C12 C13 C14 C15 C16 C17 C18 C19 C20; do
  s=$(date +%s)
  out=$(./check $c --tier $tier 2>&1); r=$?
  e=$(date +%s)
  echo "$c exit=$r $((e-s))s $(echo "$out" | grep -c '^VIOLATION') violations $(echo "$out" | grep -c '^KNOWN-FINDING') known | $(echo "$out" | tail -1 | cut -c1-150)"
  [ $r -ne 0 ] && rc=1
done
exit $rc
