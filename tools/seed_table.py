#!/usr/bin/env python3
"""prints the markdown table of the seeded changes kept under /verif/seeded"""
import json, os, glob
HERE = os.path.dirname(os.path.dirname(os.path.abspath(__file__)))
rows = []
for d in sorted(glob.glob(os.path.join(HERE, 'seeded', '*'))):
    m = json.load(open(os.path.join(d, 'meta.json')))
    det = m.get('checks', {})
    own = det.get(m.get('reclassified') or m['property'], {})
    sigs = '; '.join(s.replace('signature: ', '') for s in own.get('signatures', [])[:2])
    rows.append('| %s | %s | %s | %s | %s | %s |' % (m['name'], m['property'] + (' (breaks %s, see text)' % m['reclassified'] if m.get('reclassified') else ''), m.get('summary', '').replace('|', '/')[:230], m.get('needs', '').replace('|', '/')[:200],
                                                 ', '.join(m.get('detected_by', [])) or '**missed**', sigs[:160].replace('|', '/')))
print('| seed | property | change (40 tests still pass) | needs | caught by (quick) | first signatures |')
print('|---|---|---|---|---|---|')
print('\n'.join(rows))
