#!/usr/bin/env python3
"""For every seeded change under seeded/: apply it to a scratch worktree of /repo (outside /repo and /verif),
confirm the 40 tests pass, run EVERY quick check against it and record which ones report a violation.
Writes seeded/matrix.json (documentation, not evidence).   usage: tools/seed_matrix.py [names...]"""
import glob, json, os, shutil, subprocess, sys, tempfile, time

VERIF = os.path.dirname(os.path.dirname(os.path.abspath(__file__)))
ALL = ['C%02d' % i for i in range(1, 21)]


def sh(cmd, env=None, cwd=None):
    e = dict(os.environ)
    e.update(env or {})
    r = subprocess.run(cmd, shell=True, capture_output=True, text=True, env=e, cwd=cwd)
    return r.returncode, r.stdout + r.stderr


def main():
    names = sys.argv[1:] or sorted(os.path.basename(d) for d in glob.glob(os.path.join(VERIF, 'seeded', 'C*')))
    out_path = os.path.join(VERIF, 'seeded', 'matrix.json')
    matrix = json.load(open(out_path)) if os.path.exists(out_path) else {}
    for name in names:
        d = os.path.join(VERIF, 'seeded', name)
        wt = tempfile.mkdtemp(prefix='seedwt-')
        os.rmdir(wt)
        rc, o = sh('git -C /repo worktree add -q -f %s HEAD' % wt)
        try:
            rc, o = sh('git -C %s apply %s' % (wt, os.path.join(d, 'patch.diff')))
            if rc:
                matrix[name] = {'error': 'patch does not apply: ' + o[-200:]}
                continue
            rc, o = sh('/venv/bin/python -m pytest -q -p no:cacheprovider tests 2>&1 | tail -1', {'PYTHONPATH': wt}, cwd=wt)
            row = {'tests': o.strip(), 'checks': {}}
            outdir = tempfile.mkdtemp(prefix='seedout-')
            for c in ALL:
                t = time.time()
                rc, o = sh('./check %s --tier quick' % c, {'BISTURI_UNDER_TEST': wt, 'VERIF_OUT_DIR': outdir}, cwd=VERIF)
                nv = sum(1 for l in o.splitlines() if l.startswith('VIOLATION'))
                row['checks'][c] = {'exit': rc, 'violations': nv, 's': round(time.time() - t, 1)}
            shutil.rmtree(outdir, ignore_errors=True)
            row['caught_by'] = [c for c in ALL if row['checks'][c]['exit'] == 1 and row['checks'][c]['violations']]
            row['harness_failures'] = [c for c in ALL if row['checks'][c]['exit'] == 2]
            matrix[name] = row
            print(name, row['tests'][:20], 'caught by', row['caught_by'], 'exit2:', row['harness_failures'], flush=True)
        finally:
            sh('git -C /repo worktree remove --force %s' % wt)
            shutil.rmtree(wt, ignore_errors=True)
        json.dump(matrix, open(out_path, 'w'), indent=1, sort_keys=True)


if __name__ == '__main__':
    main()
