#!/usr/bin/env python3
"""Evaluates a seeded change living in a scratch worktree:
     tools/seed_eval.py <worktree> <name> [check ids...]
   1. the 40 pinned tests must pass on the changed tree
   2. demo.py must fail on the changed tree and pass on /repo
   3. runs the given checks (default: the property's own, quick tier) against the changed tree
      (BISTURI_UNDER_TEST=<worktree>, outputs redirected to a scratch directory)
   and writes /verif/seeded/<name>/{patch.diff, demo.py, meta.json}."""
import json, os, shutil, subprocess, sys, tempfile, time

VERIF = os.path.dirname(os.path.dirname(os.path.abspath(__file__)))
PY = '/venv/bin/python'


def sh(cmd, env=None, cwd=None, timeout=3600):
    e = dict(os.environ)
    e.update(env or {})
    r = subprocess.run(cmd, shell=True, capture_output=True, text=True, env=e, cwd=cwd, timeout=timeout)
    return r.returncode, (r.stdout + r.stderr)


def main():
    wt, name = sys.argv[1], sys.argv[2]
    checks = sys.argv[3:]
    meta = json.load(open(os.path.join(wt, 'meta.json'))) if os.path.exists(os.path.join(wt, 'meta.json')) else {}
    prop = meta.get('property') or name[:3]
    if not checks:
        checks = [prop]
    tier = os.environ.get('SEED_TIER', 'quick')
    rc, patch = sh('git -C %s diff -- bisturi' % wt)
    ran = {}
    rc, out = sh('%s -m pytest -q -p no:cacheprovider tests 2>&1 | tail -1' % PY, {'PYTHONPATH': wt}, cwd=wt)
    ran['tests_on_changed_tree'] = out.strip()
    tests_ok = '40 passed' in out
    rc1, out1 = sh('%s demo.py' % PY, {'PYTHONPATH': wt}, cwd=wt)
    democlean = tempfile.mkdtemp(prefix='democlean')
    shutil.copy(os.path.join(wt, 'demo.py'), democlean)
    rc2, out2 = sh('%s demo.py' % PY, {'PYTHONPATH': '/repo'}, cwd=democlean)
    shutil.rmtree(democlean, ignore_errors=True)
    ran['demo_on_changed_tree_exit'] = rc1
    ran['demo_on_unchanged_tree_exit'] = rc2
    ran['demo_output_on_changed_tree'] = out1[-400:]
    outdir = tempfile.mkdtemp(prefix='seedout')
    results = {}
    for c in checks:
        t = time.time()
        rc, out = sh('./check %s --tier %s' % (c, tier), {'BISTURI_UNDER_TEST': wt, 'VERIF_OUT_DIR': outdir}, cwd=VERIF)
        viol = [l for l in out.splitlines() if l.startswith('VIOLATION')]
        sigs = [l.strip() for l in out.splitlines() if l.strip().startswith('signature:')]
        whats = [l.strip()[:300] for l in out.splitlines() if l.strip().startswith('what:')]
        results[c] = {'exit': rc, 'violations': len(viol), 'signatures': sigs[:6], 'first': whats[:1], 'seconds': round(time.time() - t, 1),
                      'harness_failure': 'HARNESS-FAILURE' in out}
    shutil.rmtree(outdir, ignore_errors=True)
    valid = tests_ok and rc1 != 0 and rc2 == 0
    meta.update({'name': name, 'property': prop, 'valid_seed': valid, 'what_was_run': ran, 'tier': tier,
                 'checks': results, 'detected_by': sorted(c for c, r in results.items() if r['exit'] == 1 and r['violations'])})
    d = os.path.join(VERIF, 'seeded', name)
    if valid:
        os.makedirs(d, exist_ok=True)
        open(os.path.join(d, 'patch.diff'), 'w').write(patch)
        shutil.copy(os.path.join(wt, 'demo.py'), os.path.join(d, 'demo.py'))
        json.dump(meta, open(os.path.join(d, 'meta.json'), 'w'), indent=1)
    print(json.dumps({k: meta[k] for k in ('name', 'property', 'valid_seed', 'detected_by', 'summary', 'needs') if k in meta}, indent=1))
    for c, r in results.items():
        print(c, r)
    print('tests:', ran['tests_on_changed_tree'], '| demo changed exit', rc1, '| demo clean exit', rc2)


if __name__ == '__main__':
    main()
